/-
  Frame lemmas for C09 (all runs): the number of MQTT CONNECT packets written never exceeds the number
  of CONNECT datagrams received.  Potential: `pot g` = MQTT CONNECTs written so far + connect exchanges
  in the store that have not sent theirs yet (`unsent`).  `F9 n g g'` says that a model function keeps
  the bookkeeping invariant `I9` (transaction ids unique and below `nextTx`; a broker-publish exchange
  never holds an MQTT CONNECT as its packet to resend) and raises the potential by at most `n`:
  `n = 1` for the handler of a CONNECT datagram, `n = 0` for everything else.
-/
import Bisquitt.Lemmas.GwAuth

namespace Bisquitt.Gw
open Bisquitt Gw

def unsentKind : TxKind → Bool
  | .connect .awaitingConnack _ => false
  | .connect _ _ => true
  | _ => false
def unsentTx (t : Tx) : Bool := unsentKind t.kind
/-- connect exchanges that have not written their MQTT CONNECT yet -/
def unsent (g : Gw) : Nat := (g.txs.filter unsentTx).length
def pot (g : Gw) : Nat := (mqConnects g).length + unsent g

def bpKindOk (k : TxKind) : Prop := ∀ q st p snp n, k = .brokerPub q st (.mq p) snp n → notConnect p = true

structure I9 (g : Gw) : Prop where
  nodup : (g.txs.map (·.id)).Nodup
  lt : ∀ t ∈ g.txs, t.id < g.nextTx
  bp : ∀ t ∈ g.txs, bpKindOk t.kind

/-! ### lists of transactions -/

theorem repl_ids (l : List Tx) (t' : Tx) :
    (l.map (fun x => if x.id == t'.id then t' else x)).map (·.id) = l.map (·.id) := by
  induction l with
  | nil => rfl
  | cons x xs ih =>
    simp only [List.map_cons, ih]
    congr 1
    split
    · rename_i h; exact (beq_iff_eq.mp h).symm
    · rfl

theorem repl_none (l : List Tx) (t' : Tx) (h : ∀ x ∈ l, x.id ≠ t'.id) :
    l.map (fun x => if x.id == t'.id then t' else x) = l := by
  induction l with
  | nil => rfl
  | cons x xs ih =>
    simp only [List.map_cons]
    have hx : (x.id == t'.id) = false := by simpa using h x (by simp)
    rw [hx, ih (fun y hy => h y (by simp [hy]))]
    rfl

theorem count_repl (p : Tx → Bool) (l : List Tx) (t t' : Tx) (hn : (l.map (·.id)).Nodup) (ht : t ∈ l)
    (hid : t'.id = t.id) :
    ((l.map (fun x => if x.id == t'.id then t' else x)).filter p).length + (if p t then 1 else 0) =
      (l.filter p).length + (if p t' then 1 else 0) := by
  induction l with
  | nil => cases ht
  | cons x xs ih =>
    simp only [List.map_cons, List.nodup_cons] at hn
    obtain ⟨hx, hxs⟩ := hn
    by_cases hxt : x.id = t.id
    · have htx : t = x := by
        rcases List.mem_cons.mp ht with h | h
        · exact h
        · exact absurd (List.mem_map.mpr ⟨t, h, hxt.symm⟩) hx
      subst htx
      have hrest : xs.map (fun x => if x.id == t'.id then t' else x) = xs :=
        repl_none xs t' (fun y hy e => hx (List.mem_map.mpr ⟨y, hy, by rw [e, hid]⟩))
      have hb : (t.id == t'.id) = true := by simp [hid]
      simp only [List.map_cons, hb, if_true, hrest, List.filter_cons]
      cases p t' <;> cases p t <;> simp
    · have hb : (x.id == t'.id) = false := by simpa [hid] using hxt
      have ht' : t ∈ xs := by
        rcases List.mem_cons.mp ht with h | h
        · exact absurd (by rw [h]) hxt
        · exact h
      have := ih hxs ht'
      simp only [List.map_cons, hb, List.filter_cons, Bool.false_eq_true, if_false]
      cases hp : p x
      · simp only [Bool.false_eq_true, if_false]; exact this
      · simp only [if_true, List.length_cons]; omega


def isConnKind : TxKind → Bool | .connect .. => true | _ => false

/-- C10's part of the frame: unless the session has ended (then all timers are stopped), every connect
    exchange of `g` is still there in `g'`, a finished one finished, an unfinished one finished or with the
    deadline it had — no function of the model re-arms or postpones the timer of a connect exchange -/
def Kept (g g' : Gw) : Prop :=
  (g.endedEmitted = true → g'.endedEmitted = true) ∧
  (g'.endedEmitted = true ∨ ∀ t ∈ g.txs, isConnKind t.kind = true →
    ∃ t' ∈ g'.txs, t'.id = t.id ∧ isConnKind t'.kind = true ∧ (t.done = true → t'.done = true) ∧
      (t.done = false → t'.done = true ∨ t'.timer = t.timer))

theorem Kept.refl (g : Gw) : Kept g g :=
  ⟨fun h => h, Or.inr fun t ht hc => ⟨t, ht, rfl, hc, fun h => h, fun _ => Or.inr rfl⟩⟩

theorem Kept.trans {a b c : Gw} (h1 : Kept a b) (h2 : Kept b c) : Kept a c := by
  refine ⟨fun h => h2.1 (h1.1 h), ?_⟩
  by_cases hc : c.endedEmitted = true
  · exact Or.inl hc
  · have hb : ¬ b.endedEmitted = true := fun hb => hc (h2.1 hb)
    rcases h1.2 with h | k1
    · exact absurd h hb
    rcases h2.2 with h | k2
    · exact absurd h hc
    refine Or.inr fun t ht hk => ?_
    obtain ⟨t', ht', hid', hk', hd', htm'⟩ := k1 t ht hk
    obtain ⟨t'', ht'', hid'', hk'', hd'', htm''⟩ := k2 t' ht' hk'
    refine ⟨t'', ht'', hid''.trans hid', hk'', fun h => hd'' (hd' h), fun h => ?_⟩
    cases hdn : t'.done with
    | true => exact Or.inl (hd'' hdn)
    | false =>
      rcases htm' h with h3 | h3
      · rw [hdn] at h3; cases h3
      · rcases htm'' hdn with h4 | h4
        · exact Or.inl h4
        · exact Or.inr (h4.trans h3)

theorem Kept.of_eq {g g' : Gw} (ht : g'.txs = g.txs) (he : g'.endedEmitted = g.endedEmitted) : Kept g g' :=
  ⟨fun h => by rw [he]; exact h, Or.inr fun t hm hc => ⟨t, by rw [ht]; exact hm, rfl, hc, fun h => h, fun _ => Or.inr rfl⟩⟩

structure F9 (n : Nat) (g g' : Gw) : Prop where
  keep : I9 g → I9 g' ∧ pot g' ≤ pot g + n ∧ Kept g g'

theorem F9.refl (g : Gw) : F9 0 g g := ⟨fun h => ⟨h, Nat.le_refl _, Kept.refl g⟩⟩
theorem F9.inv {n : Nat} {g g' : Gw} (h : F9 n g g') (hI : I9 g) : I9 g' := (h.keep hI).1
theorem F9.le {n : Nat} {g g' : Gw} (h : F9 n g g') (hI : I9 g) : pot g' ≤ pot g + n := (h.keep hI).2.1
theorem F9.kept {n : Nat} {g g' : Gw} (h : F9 n g g') (hI : I9 g) : Kept g g' := (h.keep hI).2.2
/-- composition of two steps that do not raise the potential -/
theorem F9.trans {a b c : Gw} (h1 : F9 0 a b) (h2 : F9 0 b c) : F9 0 a c :=
  ⟨fun hI => ⟨h2.inv (h1.inv hI), by have := h1.le hI; have := h2.le (h1.inv hI); omega,
    (h1.kept hI).trans (h2.kept (h1.inv hI))⟩⟩
theorem F9.mono {n m : Nat} {g g' : Gw} (h : F9 n g g') (hnm : n ≤ m) : F9 m g g' :=
  ⟨fun hI => ⟨h.inv hI, by have := h.le hI; omega, h.kept hI⟩⟩
theorem F9.before {n : Nat} {a b c : Gw} (h1 : F9 0 a b) (h2 : F9 n b c) : F9 n a c :=
  ⟨fun hI => ⟨h2.inv (h1.inv hI), by have := h1.le hI; have := h2.le (h1.inv hI); omega,
    (h1.kept hI).trans (h2.kept (h1.inv hI))⟩⟩
theorem F9.after {n : Nat} {a b c : Gw} (h1 : F9 n a b) (h2 : F9 0 b c) : F9 n a c :=
  ⟨fun hI => ⟨h2.inv (h1.inv hI), by have := h1.le hI; have := h2.le (h1.inv hI); omega,
    (h1.kept hI).trans (h2.kept (h1.inv hI))⟩⟩

theorem I9.of_eq {g : Gw} (h : I9 g) {g' : Gw} (ht : g'.txs = g.txs) (hn : g'.nextTx = g.nextTx) : I9 g' :=
  ⟨by rw [ht]; exact h.nodup, by rw [ht, hn]; exact h.lt, by rw [ht]; exact h.bp⟩

theorem F9.of_eq {g g' : Gw} (ho : g'.outs = g.outs) (ht : g'.txs = g.txs) (hn : g'.nextTx = g.nextTx)
    (he : g'.endedEmitted = g.endedEmitted) : F9 0 g g' :=
  ⟨fun hI => ⟨hI.of_eq ht hn, by unfold pot mqConnects unsent; rw [ho, ht]; exact Nat.le_refl _, Kept.of_eq ht he⟩⟩

theorem F9.emit (g : Gw) (o : Out) (h : isMqConnect (g.now, o) = false) : F9 0 g (g.emit o) :=
  ⟨fun hI => ⟨hI.of_eq rfl rfl, by unfold pot mqConnects unsent Gw.emit; simp [h], Kept.of_eq rfl rfl⟩⟩
theorem F9.snSend (g : Gw) (p : Pkt) (tx : Option Nat) : F9 0 g (g.snSend p tx) := by
  unfold Gw.snSend
  split
  · exact F9.of_eq rfl rfl rfl rfl
  · exact F9.emit g _ rfl
theorem F9.snSendNow (g : Gw) (p : Pkt) : F9 0 g (g.snSendNow p) := F9.emit g _ rfl
theorem F9.mqttSend (g : Gw) (p : MqPkt) (h : notConnect p = true) : F9 0 g (g.mqttSend p) := by
  unfold Gw.mqttSend
  refine F9.emit g _ ?_
  cases p <;> simp_all [isMqConnect, notConnect]

theorem I9.setTx {g : Gw} (hI : I9 g) (t t' : Tx) (ht : t ∈ g.txs) (hid : t'.id = t.id) (hbp : bpKindOk t'.kind) :
    I9 (g.setTx t') := by
  refine ⟨?_, ?_, ?_⟩
  · unfold Gw.setTx; simp only; rw [repl_ids]; exact hI.nodup
  · intro x hx
    unfold Gw.setTx at hx
    simp only [List.mem_map] at hx
    obtain ⟨y, hy, rfl⟩ := hx
    split
    · rw [hid]; exact hI.lt t ht
    · exact hI.lt y hy
  · intro x hx
    unfold Gw.setTx at hx
    simp only [List.mem_map] at hx
    obtain ⟨y, hy, rfl⟩ := hx
    split
    · exact hbp
    · exact hI.bp y hy

/-- what replacing `t` by `t'` may do to a connect exchange: it stays one, stays finished, and while it is
    unfinished its deadline stays -/
def Rel10 (t t' : Tx) : Prop :=
  isConnKind t.kind = true →
    isConnKind t'.kind = true ∧ (t.done = true → t'.done = true) ∧ (t.done = false → t'.done = true ∨ t'.timer = t.timer)

theorem Rel10.of_not_conn {t t' : Tx} (h : isConnKind t.kind = false) : Rel10 t t' := fun hc => by rw [h] at hc; cases hc
theorem Rel10.of_done {t t' : Tx} (hk : t'.kind = t.kind) (hd : t.done = true) (hd' : t'.done = true) : Rel10 t t' :=
  fun hc => ⟨by rw [hk]; exact hc, fun _ => hd', fun h => by rw [hd] at h; cases h⟩
theorem Rel10.finish {t t' : Tx} (hk : t'.kind = t.kind) (hd' : t'.done = true) : Rel10 t t' :=
  fun hc => ⟨by rw [hk]; exact hc, fun _ => hd', fun _ => Or.inl hd'⟩
theorem Rel10.kind {t : Tx} {k : TxKind} (hk : isConnKind t.kind = true → isConnKind k = true) : Rel10 t { t with kind := k } :=
  fun hc => ⟨hk hc, fun h => h, fun _ => Or.inr rfl⟩

theorem eq_of_id_nodup : ∀ (l : List Tx) (x t : Tx), (l.map (·.id)).Nodup → x ∈ l → t ∈ l → x.id = t.id → x = t := by
  intro l
  induction l with
  | nil => intro x t _ hx; cases hx
  | cons y ys ih =>
    intro x t hn hx ht hid
    simp only [List.map_cons, List.nodup_cons] at hn
    obtain ⟨hy, hys⟩ := hn
    rcases List.mem_cons.mp hx with rfl | hx' <;> rcases List.mem_cons.mp ht with rfl | ht'
    · rfl
    · exact absurd (List.mem_map.mpr ⟨t, ht', hid.symm⟩) hy
    · exact absurd (List.mem_map.mpr ⟨x, hx', hid⟩) hy
    · exact ih x t hys hx' ht' hid

theorem Kept.setTx {g : Gw} (hI : I9 g) (t t' : Tx) (ht : t ∈ g.txs) (hid : t'.id = t.id) (hrel : Rel10 t t') :
    Kept g (g.setTx t') := by
  refine ⟨fun h => h, Or.inr fun x hx hc => ?_⟩
  by_cases hxt : x.id = t'.id
  · have hxe : x = t := eq_of_id_nodup g.txs x t hI.nodup hx ht (hxt.trans hid)
    subst hxe
    obtain ⟨h1, h2, h3⟩ := hrel hc
    refine ⟨t', ?_, hid, h1, h2, h3⟩
    unfold Gw.setTx
    simp only [List.mem_map]
    exact ⟨x, hx, by simp [hxt]⟩
  · refine ⟨x, ?_, rfl, hc, fun h => h, fun _ => Or.inr rfl⟩
    unfold Gw.setTx
    simp only [List.mem_map]
    exact ⟨x, hx, by simp [hxt]⟩

/-- replacing a stored transaction by one that is "unsent" only if the old one was -/
theorem F9.setTx (g : Gw) (t t' : Tx) (ht : t ∈ g.txs) (hid : t'.id = t.id)
    (hk : unsentTx t' = true → unsentTx t = true) (hbp : I9 g → bpKindOk t'.kind) (hrel : Rel10 t t') :
    F9 0 g (g.setTx t') := by
  refine ⟨fun hI => ⟨hI.setTx t t' ht hid (hbp hI), ?_, Kept.setTx hI t t' ht hid hrel⟩⟩
  have hc : ((g.setTx t').txs.filter unsentTx).length + (if unsentTx t then 1 else 0) =
      (g.txs.filter unsentTx).length + (if unsentTx t' then 1 else 0) := count_repl unsentTx g.txs t t' hI.nodup ht hid
  have ho : mqConnects (g.setTx t') = mqConnects g := rfl
  unfold pot unsent
  rw [ho]
  cases h1 : unsentTx t' <;> cases h2 : unsentTx t
  · simp only [h1, h2, Bool.false_eq_true, if_false] at hc; omega
  · simp only [h1, h2, Bool.false_eq_true, if_false, if_true] at hc; omega
  · have := hk h1; rw [h2] at this; cases this
  · simp only [h1, h2, if_true] at hc; omega

theorem F9.setKind (g : Gw) (t : Tx) (k : TxKind) (ht : t ∈ g.txs) (hk : unsentKind k = true → unsentTx t = true)
    (hbp : I9 g → bpKindOk k) (hc : isConnKind t.kind = true → isConnKind k = true) : F9 0 g (g.setTx { t with kind := k }) :=
  F9.setTx g t { t with kind := k } ht rfl hk hbp (Rel10.kind hc)
theorem F9.setKindTimer (g : Gw) (t : Tx) (k : TxKind) (tm : Option Nat) (ht : t ∈ g.txs)
    (hk : unsentKind k = true → unsentTx t = true) (hbp : I9 g → bpKindOk k) (hn : isConnKind t.kind = false) :
    F9 0 g (g.setTx { t with kind := k, timer := tm }) :=
  F9.setTx g t { t with kind := k, timer := tm } ht rfl hk hbp (Rel10.of_not_conn hn)

/-- a connect exchange writes its MQTT CONNECT: it stops being "unsent" -/
theorem F9.sendConnect (g : Gw) (t : Tx) (f : ConnFields) (p : MqPkt) (ht : t ∈ g.txs) (hu : unsentTx t = true) :
    F9 0 g ((g.setTx { t with kind := .connect .awaitingConnack f }).mqttSend p) := by
  refine ⟨fun hI => ⟨(hI.setTx t { t with kind := .connect .awaitingConnack f } ht rfl
    (fun _ _ _ _ _ e => by cases e)).of_eq rfl rfl, ?_,
    (Kept.setTx hI t { t with kind := .connect .awaitingConnack f } ht rfl (Rel10.kind (fun _ => rfl))).trans
      (Kept.of_eq rfl rfl)⟩⟩
  have hc : ((g.setTx { t with kind := .connect .awaitingConnack f }).txs.filter unsentTx).length + (if unsentTx t then 1 else 0) =
      (g.txs.filter unsentTx).length + (if unsentTx { t with kind := .connect .awaitingConnack f } then 1 else 0) :=
    count_repl unsentTx g.txs t { t with kind := .connect .awaitingConnack f } hI.nodup ht rfl
  have h1 : unsentTx { t with kind := .connect .awaitingConnack f } = false := rfl
  simp only [hu, h1, if_true, Bool.false_eq_true, if_false] at hc
  have hm : (mqConnects ((g.setTx { t with kind := .connect .awaitingConnack f }).mqttSend p)).length ≤ (mqConnects g).length + 1 := by
    unfold mqConnects Gw.mqttSend Gw.emit
    show (List.filter isMqConnect (_ :: g.outs)).length ≤ _
    simp only [List.filter_cons]; split <;> simp
  have hu2 : unsent ((g.setTx { t with kind := .connect .awaitingConnack f }).mqttSend p) =
      ((g.setTx { t with kind := .connect .awaitingConnack f }).txs.filter unsentTx).length := rfl
  unfold pot
  rw [hu2]
  unfold unsent
  omega

theorem F9.runFinally (g : Gw) (t : Tx) : F9 0 g (g.runFinally t) := by
  unfold Gw.runFinally
  split
  · split <;> exact F9.of_eq rfl rfl rfl rfl
  · split <;> exact F9.of_eq rfl rfl rfl rfl
  · exact F9.of_eq rfl rfl rfl rfl

theorem bpKindOk_of_mem {g : Gw} (hI : I9 g) {t : Tx} (ht : t ∈ g.txs) : bpKindOk t.kind := hI.bp t ht

theorem F9.finishTx (g : Gw) (id : Nat) : F9 0 g (g.finishTx id) := by
  unfold Gw.finishTx
  split
  · rename_i t ht
    split
    · exact F9.refl g
    · refine ⟨fun hI => ?_⟩
      have h1 := F9.setTx g t { t with done := true, timer := none } (getTx_mem' ht) rfl (fun h => h)
        (fun hI => hI.bp t (getTx_mem' ht)) (Rel10.finish rfl rfl)
      exact (h1.trans (F9.runFinally _ t)).keep hI
  · exact F9.refl g

theorem F9.fail (g : Gw) (c : EndCls) : F9 0 g (g.fail c) := by
  unfold Gw.fail; split <;> exact F9.of_eq rfl rfl rfl rfl

theorem I9.newTx {g : Gw} (hI : I9 g) (k : TxKind) (key : TxKey) (tm : Option Nat) (hbp : bpKindOk k) :
    I9 (g.newTx k key tm).2 := by
  refine ⟨?_, ?_, ?_⟩
  · unfold Gw.newTx
    simp only [List.map_append, List.map_cons, List.map_nil]
    refine List.nodup_append.mpr ⟨hI.nodup, by simp, ?_⟩
    intro a ha b hb
    simp only [List.mem_singleton] at hb
    subst hb
    obtain ⟨y, hy, rfl⟩ := List.mem_map.mp ha
    exact Nat.ne_of_lt (hI.lt y hy)
  · intro x hx
    unfold Gw.newTx at hx ⊢
    simp only [List.mem_append, List.mem_singleton] at hx
    rcases hx with hx | rfl
    · exact Nat.lt_succ_of_lt (hI.lt x hx)
    · exact Nat.lt_succ_self _
  · intro x hx
    unfold Gw.newTx at hx
    simp only [List.mem_append, List.mem_singleton] at hx
    rcases hx with hx | rfl
    · exact hI.bp x hx
    · exact hbp

theorem pot_newTx (g : Gw) (k : TxKind) (key : TxKey) (tm : Option Nat) :
    pot (g.newTx k key tm).2 = pot g + (if unsentKind k then 1 else 0) := by
  have hu : unsentTx { id := g.nextTx, kind := k, key := key, timer := tm } = unsentKind k := rfl
  unfold pot unsent mqConnects Gw.newTx
  simp only [List.filter_append, List.length_append, List.filter_cons, List.filter_nil, hu]
  split <;> simp <;> omega

theorem Kept.newTx (g : Gw) (k : TxKind) (key : TxKey) (tm : Option Nat) : Kept g (g.newTx k key tm).2 :=
  ⟨fun h => h, Or.inr fun t ht hc => ⟨t, by unfold Gw.newTx; simp [ht], rfl, hc, fun h => h, fun _ => Or.inr rfl⟩⟩

theorem F9.newTx (g : Gw) (k : TxKind) (key : TxKey) (tm : Option Nat) (hk : unsentKind k = false) (hbp : bpKindOk k) :
    F9 0 g (g.newTx k key tm).2 :=
  ⟨fun hI => ⟨hI.newTx k key tm hbp, by rw [pot_newTx, hk]; simp, Kept.newTx g k key tm⟩⟩

theorem F9.storeById (g : Gw) (m : UInt16) (id : Nat) : F9 0 g (g.storeById m id) := F9.of_eq rfl rfl rfl rfl
theorem F9.storeByIdB (g : Gw) (m : UInt16) (id : Nat) : F9 0 g (g.storeByIdB m id) := F9.of_eq rfl rfl rfl rfl
theorem F9.storeRegistered (g : Gw) (id : UInt16) (n : Bytes) : F9 0 g (g.storeRegistered id n) := F9.of_eq rfl rfl rfl rfl
theorem F9.setConnectTx (g : Gw) (id : Nat) : F9 0 g (g.setConnectTx id) := F9.of_eq rfl rfl rfl rfl
theorem F9.setSt (g : Gw) (s : CState) : F9 0 g (g.setSt s) := F9.of_eq rfl rfl rfl rfl
theorem F9.setNow (g : Gw) (t : Nat) : F9 0 g (g.setNow t) := F9.of_eq rfl rfl rfl rfl
theorem F9.clearBuffer (g : Gw) : F9 0 g g.clearBuffer := F9.of_eq rfl rfl rfl rfl
theorem F9.cancelSleepPinger (g : Gw) : F9 0 g g.cancelSleepPinger := F9.of_eq rfl rfl rfl rfl
theorem F9.startSleepPinger (g : Gw) (d : UInt16) : F9 0 g (g.startSleepPinger d) := F9.of_eq rfl rfl rfl rfl
theorem F9.armSleepPinger (g : Gw) (d : UInt16) : F9 0 g (g.armSleepPinger d) := by
  unfold Gw.armSleepPinger
  split
  · exact F9.cancelSleepPinger g
  · exact (F9.cancelSleepPinger g).trans (F9.startSleepPinger _ _)
theorem F9.pingBroker (g : Gw) : F9 0 g g.pingBroker := by
  unfold Gw.pingBroker
  have h0 : F9 0 g ({ g with ownPings := g.ownPings + 1 } : Gw) := F9.of_eq rfl rfl rfl rfl
  exact h0.trans (F9.mqttSend _ _ rfl)
theorem F9.keepBrokerAlive (g : Gw) : F9 0 g g.keepBrokerAlive := by
  unfold Gw.keepBrokerAlive
  split
  · exact F9.refl g
  · split
    · split
      · exact F9.refl g
      · exact F9.pingBroker g
    · exact F9.pingBroker g

theorem F9.newTopicId (g : Gw) : F9 0 g g.newTopicId.2 := by
  refine F9.of_eq (newTopicId_outs g) ?_ ?_ ?_
  · unfold Gw.newTopicId
    split
    · rfl
    · simp only
      split
      · rfl
      · split <;> rfl
  · unfold Gw.newTopicId
    split
    · rfl
    · simp only
      split
      · rfl
      · split <;> rfl
  · unfold Gw.newTopicId
    split
    · rfl
    · simp only
      split
      · rfl
      · split <;> rfl
theorem F9.newTopicId' {g g' : Gw} {r : Option UInt16} (h : g.newTopicId = (r, g')) : F9 0 g g' := by
  have : g' = g.newTopicId.2 := by rw [h]
  rw [this]; exact F9.newTopicId g
theorem F9.registrationTopicId' {g g' : Gw} {topic : Bytes} {r : Option UInt16} (h : g.registrationTopicId topic = (r, g')) :
    F9 0 g g' := by
  have : g' = (g.registrationTopicId topic).2 := by rw [h]
  rw [this]
  rcases registrationTopicId_proj g topic with h | h | ⟨id, h⟩ <;> rw [h]
  · exact F9.refl g
  · exact F9.newTopicId g
  · exact F9.trans (F9.newTopicId g) (F9.of_eq rfl rfl rfl rfl)

theorem bp_ok (q : UInt8) (st : BpSt) (d : BpData) (snp : Option Pkt) (n : Nat)
    (hd : ∀ p, d = .mq p → notConnect p = true) : bpKindOk (.brokerPub q st d snp n) := by
  intro q' st' p snp' n' hk
  have hdp : d = .mq p := by injection hk
  exact hd p hdp
theorem bp_ok_other {k : TxKind} (h : ∀ q st d snp n, k ≠ .brokerPub q st d snp n) : bpKindOk k :=
  fun q st p snp n e => absurd e (h q st (.mq p) snp n)

theorem F9.armBp (g : Gw) (t : Tx) (q : UInt8) (s : BpSt) (d : BpData) (snp : Option Pkt) (ht : t ∈ g.txs)
    (hd : ∀ p, d = .mq p → notConnect p = true) (hn : isConnKind t.kind = false) : F9 0 g (g.armBp t q s d snp) := by
  unfold Gw.armBp
  split
  · exact F9.refl g
  · exact F9.setTx g t { t with kind := .brokerPub q s d snp 0, timer := some (g.now + g.cfg.retryDelay) } ht rfl
      (fun h => absurd h Bool.false_ne_true) (fun _ => bp_ok _ _ _ _ _ hd) (Rel10.of_not_conn hn)
theorem F9.finishIfDone (g : Gw) (id : Nat) (s : BpSt) : F9 0 g (g.finishIfDone id s) := by
  unfold Gw.finishIfDone; split
  · exact F9.finishTx g id
  · exact F9.refl g
theorem F9.proceedSN (g : Gw) (id : Nat) (s : BpSt) (p : Pkt) : F9 0 g (g.proceedSN id s p) := by
  unfold Gw.proceedSN
  split
  · rename_i t ht
    split
    · rename_i hkk
      exact ((F9.armBp g _ _ _ _ _ (getTx_mem' ht) (fun _ e => by cases e) (by rw [hkk]; rfl)).trans (F9.snSend _ _ _)).trans (F9.finishIfDone _ _ _)
    · exact F9.refl g
  · exact F9.refl g
theorem F9.proceedMQ (g : Gw) (id : Nat) (s : BpSt) (p : MqPkt) (h : notConnect p = true) : F9 0 g (g.proceedMQ id s p) := by
  unfold Gw.proceedMQ
  split
  · rename_i t ht
    split
    · rename_i hkk
      exact ((F9.armBp g _ _ _ _ _ (getTx_mem' ht) (fun _ e => by cases e; exact h) (by rw [hkk]; rfl)).trans (F9.mqttSend _ _ h)).trans (F9.finishIfDone _ _ _)
    · exact F9.refl g
  · exact F9.refl g

theorem F9.storeClientPub1 (g : Gw) (q : UInt8) (tid mid : UInt16) : F9 0 g (g.storeClientPub1 q tid mid) := by
  unfold Gw.storeClientPub1
  split
  · exact (F9.newTx g _ _ _ rfl (bp_ok_other (fun _ _ _ _ _ e => by cases e))).trans (F9.storeById _ _ _)
  · exact F9.refl g
theorem F9.handleClientPublish (g : Gw) (dup : Bool) (q : UInt8) (r : Bool) (tit : UInt8) (tid mid : UInt16) (d : Bytes) :
    F9 0 g (g.handleClientPublish dup q r tit tid mid d) := by
  unfold Gw.handleClientPublish
  split
  · exact F9.fail g _
  · exact F9.fail g _
  · split
    · exact F9.fail g _
    · exact (F9.storeClientPub1 g _ _ _).trans (F9.mqttSend _ _ rfl)
theorem F9.forwardSubscribe (g : Gw) (dup : Bool) (q : UInt8) (mid : UInt16) (tp : Bytes) (tid : UInt16) :
    F9 0 g (g.forwardSubscribe dup q mid tp tid) := by
  unfold Gw.forwardSubscribe
  split
  · exact F9.fail g _
  · exact ((F9.newTx g _ _ _ rfl (bp_ok_other (fun _ _ _ _ _ e => by cases e))).trans (F9.storeById _ _ _)).trans (F9.mqttSend _ _ rfl)
theorem F9.handleSubscribe (g : Gw) (dup : Bool) (q tit : UInt8) (mid tid : UInt16) (n : Bytes) :
    F9 0 g (g.handleSubscribe dup q tit mid tid n) := by
  unfold Gw.handleSubscribe
  split
  · exact F9.snSend g _ _
  · split
    · split
      · split
        · exact F9.forwardSubscribe g _ _ _ _ _
        · split
          · rename_i hn
            exact ((F9.newTopicId' hn).trans (F9.storeRegistered _ _ _)).trans (F9.forwardSubscribe _ _ _ _ _ _)
          · rename_i hn
            exact (F9.newTopicId' hn).trans (F9.snSend _ _ _)
      · exact F9.forwardSubscribe g _ _ _ _ _
    · split
      · split
        · exact F9.forwardSubscribe g _ _ _ _ _
        · exact F9.fail g _
      · split <;> exact F9.forwardSubscribe g _ _ _ _ _
theorem F9.forwardUnsubscribe (g : Gw) (mid : UInt16) (tp : Bytes) : F9 0 g (g.forwardUnsubscribe mid tp) := by
  unfold Gw.forwardUnsubscribe
  split
  · exact F9.fail g _
  · exact F9.mqttSend g _ rfl
theorem F9.handleUnsubscribe (g : Gw) (tit : UInt8) (mid tid : UInt16) (n : Bytes) : F9 0 g (g.handleUnsubscribe tit mid tid n) := by
  unfold Gw.handleUnsubscribe
  split
  · exact F9.forwardUnsubscribe g _ _
  · split
    · split
      · exact F9.forwardUnsubscribe g _ _
      · exact F9.fail g _
    · split <;> exact F9.forwardUnsubscribe g _ _
theorem F9.handleRegister (g : Gw) (mid : UInt16) (n : Bytes) : F9 0 g (g.handleRegister mid n) := by
  unfold Gw.handleRegister
  split
  · exact F9.snSend g _ _
  · split
    · exact F9.snSend g _ _
    · split
      · rename_i hn
        exact ((F9.newTopicId' hn).trans (F9.storeRegistered _ _ _)).trans (F9.snSend _ _ _)
      · rename_i hn
        exact (F9.newTopicId' hn).trans (F9.snSend _ _ _)
theorem F9.bpRegack (g : Gw) (t : Tx) (q : UInt8) (s : BpSt) (d : BpData) (snp : Option Pkt) (rc : UInt8) :
    F9 0 g (g.bpRegack t q s d snp rc) := by
  unfold Gw.bpRegack
  split
  · exact F9.refl g
  · split
    · exact F9.finishTx g _
    · split
      · exact (F9.storeRegistered g _ _).trans (F9.proceedSN _ _ _ _)
      · exact F9.refl g
theorem F9.startBrokerPub (g : Gw) (q : UInt8) (m : UInt16) (s0 : BpSt) (snp : Option Pkt) (s : BpSt) (p : Pkt) :
    F9 0 g (g.startBrokerPub q m s0 snp s p) := by
  unfold Gw.startBrokerPub
  exact ((F9.newTx g _ _ _ rfl (bp_ok _ _ _ _ _ (fun _ e => by cases e))).trans (F9.storeByIdB _ _ _)).trans (F9.proceedSN _ _ _ _)
theorem F9.handleBrokerPublish (g : Gw) (dup : Bool) (q : UInt8) (r : Bool) (mid : UInt16) (tp pl : Bytes) :
    F9 0 g (g.handleBrokerPublish dup q r mid tp pl) := by
  unfold Gw.handleBrokerPublish
  split
  · exact F9.refl g
  · split
    · exact F9.refl g
    · split
      · split
        · exact F9.snSend g _ _
        · split
          · exact F9.fail g _
          · exact F9.startBrokerPub g _ _ _ _ _ _
      · split
        · exact F9.fail g _
        · split
          · exact F9.fail g _
          · split
            · rename_i hn; exact (F9.registrationTopicId' hn).trans (F9.fail _ _)
            · rename_i hn; exact (F9.registrationTopicId' hn).trans (F9.startBrokerPub _ _ _ _ _ _ _)


/-! ### the connect exchange -/

theorem unsent_of_kind {t : Tx} {st : ConnSt} {f : ConnFields} (hk : t.kind = .connect st f) (hs : st ≠ .awaitingConnack) :
    unsentTx t = true := by
  unfold unsentTx; rw [hk]; cases st <;> simp_all [unsentKind]

theorem connect_bp (st : ConnSt) (f : ConnFields) : bpKindOk (.connect st f) :=
  bp_ok_other (fun _ _ _ _ _ e => by cases e)

theorem F9.connAuthenticated (g : Gw) (t : Tx) (f : ConnFields) (ht : t ∈ g.txs) (hu : unsentTx t = true) :
    F9 0 g (g.connAuthenticated t f) := by
  unfold Gw.connAuthenticated
  split
  · exact (F9.setTx g t { t with kind := .connect .awaitingWillTopic f } ht rfl (fun _ => hu) (fun _ => connect_bp _ _)
      (Rel10.kind (fun _ => rfl))).trans
      (F9.snSend _ _ _)
  · exact F9.sendConnect g t f _ ht hu

theorem F9.sendConnack (g : Gw) (rc : UInt8) : F9 0 g (g.sendConnack rc) := F9.snSend g _ _

theorem F9.connAuth (g : Gw) (t : Tx) (st : ConnSt) (f : ConnFields) (m d : Bytes) (ht : t ∈ g.txs)
    (hk : t.kind = .connect st f) : F9 0 g (g.connAuth t st f m d) := by
  unfold Gw.connAuth
  split
  · exact F9.refl g
  · rename_i hs
    have hs' : st = .awaitingAuth := Decidable.not_not.mp hs
    have hu : unsentTx t = true := unsent_of_kind hk (by rw [hs']; decide)
    split
    · split
      · exact (F9.finishTx g _).trans (F9.fail _ _)
      · exact F9.connAuthenticated g t _ ht hu
    · exact ((F9.sendConnack g _).trans (F9.finishTx _ _)).trans (F9.fail _ _)

theorem F9.connWillTopic (g : Gw) (t : Tx) (st : ConnSt) (f : ConnFields) (q : UInt8) (r : Bool) (tp : Bytes) (ht : t ∈ g.txs)
    (hk : t.kind = .connect st f) : F9 0 g (g.connWillTopic t st f q r tp) := by
  unfold Gw.connWillTopic
  split
  · exact F9.refl g
  · rename_i hs
    have hs' : st = .awaitingWillTopic := Decidable.not_not.mp hs
    have hu : unsentTx t = true := unsent_of_kind hk (by rw [hs']; decide)
    split
    · exact (F9.finishTx g _).trans (F9.fail _ _)
    · exact (F9.setKind g t _ ht (fun _ => hu) (fun _ => connect_bp _ _) (fun _ => rfl)).trans (F9.snSend _ _ _)

theorem F9.connWillMsg (g : Gw) (t : Tx) (st : ConnSt) (f : ConnFields) (m : Bytes) (ht : t ∈ g.txs)
    (hk : t.kind = .connect st f) : F9 0 g (g.connWillMsg t st f m) := by
  unfold Gw.connWillMsg
  split
  · exact F9.refl g
  · rename_i hs
    have hs' : st = .awaitingWillMsg := Decidable.not_not.mp hs
    have hu : unsentTx t = true := unsent_of_kind hk (by rw [hs']; decide)
    exact F9.sendConnect g t _ _ ht hu

theorem F9.connConnack (g : Gw) (t : Tx) (st : ConnSt) (rc : UInt8) : F9 0 g (g.connConnack t st rc) := by
  unfold Gw.connConnack
  split
  · exact F9.refl g
  · split
    · exact ((F9.sendConnack g _).trans (F9.finishTx _ _)).trans (F9.fail _ _)
    · have h0 : F9 0 g ({ g with st := .active } : Gw) := F9.of_eq rfl rfl rfl rfl
      exact (h0.trans (F9.sendConnack _ _)).trans (F9.finishTx _ _)

theorem F9.cancelOldConnect (g : Gw) : F9 0 g g.cancelOldConnect := by
  unfold Gw.cancelOldConnect
  split
  · exact F9.finishTx g _
  · exact F9.refl g

theorem getTx_newTx (g : Gw) (hI : I9 g) (k : TxKind) (key : TxKey) (tm : Option Nat) :
    (g.newTx k key tm).2.getTx g.nextTx = some { id := g.nextTx, kind := k, key := key, timer := tm } := by
  have hn : g.txs.find? (·.id == g.nextTx) = none :=
    List.find?_eq_none.mpr (fun x hx => by simpa using Nat.ne_of_lt (hI.lt x hx))
  unfold Gw.getTx Gw.newTx
  simp [List.find?_append, hn]

/-- a CONNECT datagram opens one new exchange: the potential grows by one at most -/
theorem F9.startConnect (g : Gw) (f : ConnFields) : F9 1 g (g.startConnect f) := by
  refine ⟨fun hI => ?_⟩
  unfold Gw.startConnect
  have hI1 := hI.newTx (.connect .awaitingAuth f) .connectType (some (g.now + Gen.connectTransactionTimeout)) (connect_bp _ _)
  have hp1 : pot (g.newTx (.connect .awaitingAuth f) .connectType (some (g.now + Gen.connectTransactionTimeout))).2 = pot g + 1 := by
    rw [pot_newTx]; rfl
  have hget := getTx_newTx g hI (.connect .awaitingAuth f) .connectType (some (g.now + Gen.connectTransactionTimeout))
  have h2 : F9 0 (g.newTx (.connect .awaitingAuth f) .connectType (some (g.now + Gen.connectTransactionTimeout))).2
      (((g.newTx (.connect .awaitingAuth f) .connectType (some (g.now + Gen.connectTransactionTimeout))).2.setConnectTx
        g.nextTx).startConnectTx g.nextTx f) := by
    refine (F9.setConnectTx _ g.nextTx).trans ?_
    unfold Gw.startConnectTx
    split
    · exact F9.refl _
    · split
      · rename_i t ht
        have ht' : (g.newTx (.connect .awaitingAuth f) .connectType (some (g.now + Gen.connectTransactionTimeout))).2.getTx g.nextTx
            = some t := ht
        rw [hget] at ht'
        have ht2 : t = { id := g.nextTx, kind := .connect .awaitingAuth f, key := .connectType,
                         timer := some (g.now + Gen.connectTransactionTimeout) } := (Option.some.inj ht').symm
        exact F9.connAuthenticated _ t f (getTx_mem' ht) (by rw [ht2]; rfl)
      · exact F9.refl _
  have := h2.keep hI1
  exact ⟨this.1, by have := this.2.1; omega, (Kept.newTx g _ _ _).trans this.2.2⟩

theorem foldl_snSend_F9 (its : List BufItem) : ∀ g : Gw, F9 0 g (its.foldl (fun acc it => acc.snSend it.pkt it.tx) g) := by
  induction its with
  | nil => intro g; exact F9.refl g
  | cons x xs ih => intro g; simp only [List.foldl_cons]; exact (F9.snSend g _ _).trans (ih _)

theorem F9.flushBuffer (g : Gw) : F9 0 g g.flushBuffer := by
  unfold Gw.flushBuffer
  simp only
  have h0 : F9 0 g ({ g with buffer := [] } : Gw) := F9.of_eq rfl rfl rfl rfl
  have h1 := h0.trans (foldl_snSend_F9 g.buffer _)
  exact h1.trans (F9.of_eq rfl rfl rfl rfl)

theorem F9.handleConnect (g : Gw) (will clean : Bool) (dur : UInt16) (cid : Bytes) :
    F9 1 g (g.handleConnect will clean dur cid) := by
  unfold Gw.handleConnect
  split
  · have h0 : F9 0 g ({ g.cancelSleepPinger with st := .active } : Gw) := F9.of_eq rfl rfl rfl rfl
    exact ((h0.trans (F9.snSend _ _ _)).trans (F9.flushBuffer _)).mono (Nat.zero_le 1)
  · split
    · exact (F9.snSend g _ _).mono (Nat.zero_le 1)
    · have h0 : F9 0 g ({ g with keepAlive := dur, clientId := cid } : Gw) := F9.of_eq rfl rfl rfl rfl
      exact (h0.trans (F9.cancelOldConnect _)).before (F9.startConnect _ _)

theorem F9.handlePingreq (g : Gw) : F9 0 g g.handlePingreq := by
  unfold Gw.handlePingreq
  split
  · exact ((((F9.setSt g _).trans (F9.flushBuffer _)).trans (F9.snSend _ _ _)).trans (F9.setSt _ _)).trans (F9.armSleepPinger _ _)
  · exact F9.mqttSend g _ rfl

theorem F9.handleSleep (g : Gw) (d : UInt16) : F9 0 g (g.handleSleep d) := by
  unfold Gw.handleSleep
  have h0 : F9 0 g ({ g with sleepDur := d } : Gw) := F9.of_eq rfl rfl rfl rfl
  have h1 : F9 0 g (({ g with sleepDur := d } : Gw).armSleepPinger d) := h0.trans (F9.armSleepPinger _ _)
  have h2 : ∀ x : Gw, F9 0 x x.clearBufferUnlessAsleep := by
    intro x; unfold Gw.clearBufferUnlessAsleep; split
    · exact F9.clearBuffer x
    · exact F9.refl x
  exact ((h1.trans (h2 _)).trans (F9.snSendNow _ _)).trans (F9.setSt _ _)

theorem F9.handlePlainDisconnect (g : Gw) : F9 0 g g.handlePlainDisconnect := by
  unfold Gw.handlePlainDisconnect
  exact (((F9.mqttSend g _ rfl).trans (F9.setSt _ _)).trans (F9.snSend _ _ _)).trans (F9.fail _ _)

theorem F9.handleDisconnect (g : Gw) (d : UInt16) : F9 0 g (g.handleDisconnect d) := by
  unfold Gw.handleDisconnect
  split
  · exact F9.handlePlainDisconnect g
  · exact F9.handleSleep g d

/-! ### timers -/

theorem F9.retryExpire (g : Gw) (t : Tx) (ht : t ∈ g.txs) : F9 0 g (g.retryExpire t) := by
  unfold Gw.retryExpire
  split
  · rename_i q st data snp n hk0
    have hn : isConnKind t.kind = false := by rw [hk0]; rfl
    have keepT : ∀ (tm : Option Nat), F9 0 g (g.setTx { t with timer := tm }) :=
      fun tm => F9.setTx g t { t with timer := tm } ht rfl (fun h => h) (fun hI => hI.bp t ht) (Rel10.of_not_conn hn)
    split
    · exact keepT none
    · split
      · exact keepT _
      · split
        · exact F9.finishTx g _
        · split
          · rename_i p _
            have h1 : F9 0 g ({ g with buffer := g.buffer.map (fun (b : BufItem) =>
                if b.tx == some t.id && b.pkt == p then { b with pkt := setDup p } else b) } : Gw) := F9.of_eq rfl rfl rfl rfl
            exact (h1.trans (F9.setKindTimer _ t (.brokerPub q st (.sn (setDup p)) snp (n + 1)) _ ht (fun h => absurd h Bool.false_ne_true)
              (fun _ => bp_ok _ _ _ _ _ (fun _ e => by cases e)) hn)).trans (F9.snSend _ _ _)
          · rename_i p _
            refine ⟨fun hI => ?_⟩
            have hp : notConnect p = true := hI.bp t ht q st p snp n hk0
            have h2 := (F9.setTx g t { t with kind := .brokerPub q st (.mq p) snp (n + 1), timer := some (g.now + g.cfg.retryDelay) }
              ht rfl (fun h => absurd h Bool.false_ne_true)
              (fun _ => bp_ok _ _ _ _ _ (fun p' e => by cases e; exact hp)) (Rel10.of_not_conn hn)).trans (F9.mqttSend _ p hp)
            exact h2.keep hI
          · exact F9.finishTx g _
  · exact F9.refl g

theorem F9.txExpire (g : Gw) (t : Tx) (ht : t ∈ g.txs) : F9 0 g (g.txExpire t) := by
  have keepN : isConnKind t.kind = false → F9 0 g (g.setTx { t with timer := none }) :=
    fun hn => F9.setTx g t { t with timer := none } ht rfl (fun h => h) (fun hI => hI.bp t ht) (Rel10.of_not_conn hn)
  unfold Gw.txExpire
  split
  · split
    · rename_i hd
      -- a finished connect exchange: its timer may go
      exact F9.setTx g t { t with timer := none } ht rfl (fun h => h) (fun hI => hI.bp t ht) (Rel10.of_done rfl hd hd)
    · exact (F9.finishTx g _).trans (F9.fail _ _)
  · rename_i hk
    split
    · exact keepN (by rw [hk]; rfl)
    · exact F9.finishTx g _
  · rename_i hk
    split
    · exact keepN (by rw [hk]; rfl)
    · exact F9.finishTx g _
  · exact F9.retryExpire g t ht

theorem F9.firePing (g : Gw) (i : Nat) : F9 0 g (g.firePing i) := by
  unfold Gw.firePing
  have h0 : F9 0 g ({ g with pingers := g.pingers.mapIdx (fun j (p : Pinger) =>
      if j = i then { p with next := p.next + p.period } else p) } : Gw) := F9.of_eq rfl rfl rfl rfl
  exact h0.trans (F9.pingBroker _)

theorem F9.fireDue (g : Gw) (d : Due) : F9 0 g (g.fireDue d) := by
  unfold Gw.fireDue
  split
  · unfold Gw.fireTx
    split
    · rename_i t ht
      exact (F9.setNow g _).trans (F9.txExpire _ t (getTx_mem' ht))
    · exact F9.setNow g _
  · exact (F9.setNow g _).trans (F9.firePing _ _)
  · exact F9.of_eq rfl rfl rfl rfl

end Bisquitt.Gw
