/-
  Frame lemmas for C03 (all runs), a generalisation of `Lemmas/GwPub.lean`: for a family `w` of "watched"
  MQTT packets — SUBSCRIBE, UNSUBSCRIBE or PUBREL — `FW w n g g'` says that a model function keeps the
  invariant `AllQuiet w` (no broker-publish exchange holds a watched packet as its packet to resend) and
  extends the list of watched packets written to the broker so far by at most `n` new ones.  The packets the
  gateway writes on its own account or relays from broker-side exchanges (CONNECT, PINGREQ, DISCONNECT,
  PUBACK, PUBREC, PUBCOMP) are never watched; the budget of the handler of a client datagram is the
  budget of the packet kind it forwards (`nPub`, `nSub`, `nUnsub`, `nRel`: 1 for the watched kind, else 0).
-/
import Bisquitt.Lemmas.GwPub

namespace Bisquitt.Gw
open Bisquitt Gw

/-- a family of watched MQTT packets with the per-kind budgets of the forwarding handlers -/
structure Watch where
  W : MqPkt → Bool
  nPub : Nat
  nSub : Nat
  nUnsub : Nat
  nRel : Nat
  connect : ∀ f : ConnFields, W f.toPkt = false
  pingreq : W .pingreq = false
  disconnect : W .disconnect = false
  puback : ∀ m, W (.puback m) = false
  pubrec : ∀ m, W (.pubrec m) = false
  pubcomp : ∀ m, W (.pubcomp m) = false
  publish : ∀ d q r m t p, (if W (.publish d q r m t p) then 1 else 0) ≤ nPub
  subscribe : ∀ m d t q, (if W (.subscribe m d t q) then 1 else 0) ≤ nSub
  unsubscribe : ∀ m t, (if W (.unsubscribe m t) then 1 else 0) ≤ nUnsub
  pubrel : ∀ m, (if W (.pubrel m) then 1 else 0) ≤ nRel

variable (w : Watch)

def bpQuiet (k : TxKind) : Prop := ∀ q st p snp n, k = .brokerPub q st (.mq p) snp n → w.W p = false
def AllQuiet (g : Gw) : Prop := ∀ t ∈ g.txs, bpQuiet w t.kind

def isWatched (o : Nat × Out) : Bool := match o.2 with | .mq p => w.W p | _ => false
/-- the watched packets written so far (newest first) -/
def watched (g : Gw) : List (Nat × Out) := g.outs.filter (isWatched w)

structure FW (n : Nat) (g g' : Gw) : Prop where
  keep : AllQuiet w g → AllQuiet w g' ∧ ∃ new, watched w g' = new ++ watched w g ∧ new.length ≤ n

variable {w}
theorem FW.inv {n : Nat} {g g' : Gw} (h : FW w n g g') (hA : AllQuiet w g) : AllQuiet w g' := (h.keep hA).1
theorem FW.comp {m n : Nat} {a b c : Gw} (h1 : FW w m a b) (h2 : FW w n b c) : FW w (m + n) a c := by
  refine ⟨fun hA => ?_⟩
  obtain ⟨hb, n1, e1, l1⟩ := h1.keep hA
  obtain ⟨hc, n2, e2, l2⟩ := h2.keep hb
  exact ⟨hc, n2 ++ n1, by rw [e2, e1, List.append_assoc], by simp only [List.length_append]; omega⟩
theorem FW.mono {n m : Nat} {g g' : Gw} (h : FW w n g g') (hnm : n ≤ m) : FW w m g g' :=
  ⟨fun hA => by obtain ⟨hb, n1, e1, l1⟩ := h.keep hA; exact ⟨hb, n1, e1, Nat.le_trans l1 hnm⟩⟩
theorem FW.trans {a b c : Gw} (h1 : FW w 0 a b) (h2 : FW w 0 b c) : FW w 0 a c := h1.comp h2
theorem FW.before {n : Nat} {a b c : Gw} (h1 : FW w 0 a b) (h2 : FW w n b c) : FW w n a c := (h1.comp h2).mono (by omega)
theorem FW.after {n : Nat} {a b c : Gw} (h1 : FW w n a b) (h2 : FW w 0 b c) : FW w n a c := h1.comp h2
theorem FW.same {g g' : Gw} (h : FW w 0 g g') (hA : AllQuiet w g) : watched w g' = watched w g := by
  obtain ⟨_, n1, e1, l1⟩ := h.keep hA
  have : n1 = [] := List.eq_nil_of_length_eq_zero (Nat.le_zero.mp l1)
  rw [e1, this]; rfl
variable (w)

theorem FW.refl (g : Gw) : FW w 0 g g := ⟨fun h => ⟨h, [], rfl, Nat.le_refl _⟩⟩

theorem FW.of_eq {g g' : Gw} (ho : g'.outs = g.outs) (ht : g'.txs = g.txs) : FW w 0 g g' :=
  ⟨fun h => ⟨by unfold AllQuiet; rw [ht]; exact h, [], by unfold watched; rw [ho]; rfl, Nat.le_refl _⟩⟩

theorem FW.emit (g : Gw) (o : Out) (h : isWatched w (g.now, o) = false) : FW w 0 g (g.emit o) :=
  ⟨fun hA => ⟨hA, [], by unfold watched Gw.emit; simp [h], Nat.le_refl _⟩⟩
/-- any single output adds at most one watched packet -/
theorem FW.emit1 (g : Gw) (o : Out) : FW w (if isWatched w (g.now, o) then 1 else 0) g (g.emit o) :=
  ⟨fun hA => ⟨hA, [(g.now, o)].filter (isWatched w), by
    unfold watched Gw.emit; simp only [List.filter_cons, List.filter_nil]; split <;> rfl, by
    simp only [List.filter_cons, List.filter_nil]; split <;> simp⟩⟩
theorem FW.snSend (g : Gw) (p : Pkt) (tx : Option Nat) : FW w 0 g (g.snSend p tx) := by
  unfold Gw.snSend
  split
  · exact FW.of_eq w rfl rfl
  · exact FW.emit w g _ rfl
theorem FW.snSendNow (g : Gw) (p : Pkt) : FW w 0 g (g.snSendNow p) := FW.emit w g _ rfl
theorem FW.mqttSend (g : Gw) (p : MqPkt) (h : w.W p = false) : FW w 0 g (g.mqttSend p) := by
  unfold Gw.mqttSend
  refine FW.emit w g _ ?_
  simp [isWatched, h]
/-- writing a packet costs one if it is watched -/
theorem FW.mqttSendC (g : Gw) (p : MqPkt) : FW w (if w.W p then 1 else 0) g (g.mqttSend p) := by
  have h := FW.emit1 w g (.mq p)
  exact h

theorem nq_bp (q : UInt8) (st : BpSt) (d : BpData) (snp : Option Pkt) (n : Nat)
    (hd : ∀ p, d = .mq p → w.W p = false) : bpQuiet w (.brokerPub q st d snp n) := by
  intro q' st' p snp' n' hk
  have hdp : d = .mq p := by injection hk
  exact hd p hdp
theorem nq_other {k : TxKind} (h : ∀ q st d snp n, k ≠ .brokerPub q st d snp n) : bpQuiet w k :=
  fun q st p snp n e => absurd e (h q st (.mq p) snp n)
theorem nq_subscribe (tid : UInt16) : bpQuiet w (.subscribe tid) := nq_other w (fun _ _ _ _ _ e => by cases e)
theorem nq_clientPub1 (tid : UInt16) : bpQuiet w (.clientPub1 tid) := nq_other w (fun _ _ _ _ _ e => by cases e)
theorem nq_connect (st : ConnSt) (f : ConnFields) : bpQuiet w (.connect st f) := nq_other w (fun _ _ _ _ _ e => by cases e)

theorem FW.setTx (g : Gw) (t : Tx) (h : AllQuiet w g → bpQuiet w t.kind) : FW w 0 g (g.setTx t) := by
  refine ⟨fun hA => ⟨?_, [], rfl, Nat.le_refl _⟩⟩
  intro x hx
  unfold Gw.setTx at hx
  simp only [List.mem_map] at hx
  obtain ⟨y, hy, rfl⟩ := hx
  split
  · exact h hA
  · exact hA y hy

theorem FW.runFinally (g : Gw) (t : Tx) : FW w 0 g (g.runFinally t) := by
  unfold Gw.runFinally
  split
  · split <;> exact FW.of_eq w rfl rfl
  · split <;> exact FW.of_eq w rfl rfl
  · exact FW.of_eq w rfl rfl

theorem FW.finishTx (g : Gw) (id : Nat) : FW w 0 g (g.finishTx id) := by
  unfold Gw.finishTx
  split
  · rename_i t ht
    split
    · exact FW.refl w g
    · exact FW.trans
        (FW.setTx w g { t with done := true, timer := none } (fun hA => hA t (getTx_mem' ht)))
        (FW.runFinally w _ t)
  · exact FW.refl w g

theorem FW.fail (g : Gw) (c : EndCls) : FW w 0 g (g.fail c) := by
  unfold Gw.fail; split <;> exact FW.of_eq w rfl rfl

theorem FW.newTx (g : Gw) (k : TxKind) (key : TxKey) (tm : Option Nat) (h : bpQuiet w k) : FW w 0 g (g.newTx k key tm).2 := by
  refine ⟨fun hA => ⟨?_, [], rfl, Nat.le_refl _⟩⟩
  intro x hx
  unfold Gw.newTx at hx
  simp only [List.mem_append, List.mem_singleton] at hx
  rcases hx with hx | rfl
  · exact hA x hx
  · exact h

theorem FW.storeById (g : Gw) (m : UInt16) (id : Nat) : FW w 0 g (g.storeById m id) := FW.of_eq w rfl rfl
theorem FW.storeByIdB (g : Gw) (m : UInt16) (id : Nat) : FW w 0 g (g.storeByIdB m id) := FW.of_eq w rfl rfl
theorem FW.storeRegistered (g : Gw) (id : UInt16) (n : Bytes) : FW w 0 g (g.storeRegistered id n) := FW.of_eq w rfl rfl
theorem FW.setConnectTx (g : Gw) (id : Nat) : FW w 0 g (g.setConnectTx id) := FW.of_eq w rfl rfl
theorem FW.setSt (g : Gw) (s : CState) : FW w 0 g (g.setSt s) := FW.of_eq w rfl rfl
theorem FW.setNow (g : Gw) (t : Nat) : FW w 0 g (g.setNow t) := FW.of_eq w rfl rfl
theorem FW.clearBuffer (g : Gw) : FW w 0 g g.clearBuffer := FW.of_eq w rfl rfl
theorem FW.cancelSleepPinger (g : Gw) : FW w 0 g g.cancelSleepPinger := FW.of_eq w rfl rfl
theorem FW.startSleepPinger (g : Gw) (d : UInt16) : FW w 0 g (g.startSleepPinger d) := FW.of_eq w rfl rfl
theorem FW.armSleepPinger (g : Gw) (d : UInt16) : FW w 0 g (g.armSleepPinger d) := by
  unfold Gw.armSleepPinger
  split
  · exact FW.cancelSleepPinger w g
  · exact (FW.cancelSleepPinger w g).trans (FW.startSleepPinger w _ _)
theorem FW.pingBroker (g : Gw) : FW w 0 g g.pingBroker := by
  unfold Gw.pingBroker
  have h0 : FW w 0 g ({ g with ownPings := g.ownPings + 1 } : Gw) := FW.of_eq w rfl rfl
  exact h0.trans (FW.mqttSend w _ _ w.pingreq)
theorem FW.keepBrokerAlive (g : Gw) : FW w 0 g g.keepBrokerAlive := by
  unfold Gw.keepBrokerAlive
  split
  · exact FW.refl w g
  · split
    · split
      · exact FW.refl w g
      · exact FW.pingBroker w g
    · exact FW.pingBroker w g

theorem FW.newTopicId (g : Gw) : FW w 0 g g.newTopicId.2 := by
  refine FW.of_eq w (newTopicId_outs g) ?_
  · unfold Gw.newTopicId
    split
    · rfl
    · simp only
      split
      · rfl
      · split <;> rfl
theorem FW.newTopicId' {g g' : Gw} {r : Option UInt16} (h : g.newTopicId = (r, g')) : FW w 0 g g' := by
  have : g' = g.newTopicId.2 := by rw [h]
  rw [this]; exact FW.newTopicId w g
theorem FW.registrationTopicId' {g g' : Gw} {topic : Bytes} {r : Option UInt16} (h : g.registrationTopicId topic = (r, g')) :
    FW w 0 g g' := by
  have : g' = (g.registrationTopicId topic).2 := by rw [h]
  rw [this]
  rcases registrationTopicId_proj g topic with h | h | ⟨id, h⟩ <;> rw [h]
  · exact FW.refl w g
  · exact FW.newTopicId w g
  · exact FW.trans (FW.newTopicId w g) (FW.of_eq w rfl rfl)

theorem FW.armBp (g : Gw) (t : Tx) (q : UInt8) (s : BpSt) (d : BpData) (snp : Option Pkt)
    (hd : ∀ p, d = .mq p → w.W p = false) : FW w 0 g (g.armBp t q s d snp) := by
  unfold Gw.armBp
  split
  · exact FW.refl w g
  · exact FW.setTx w g _ (fun _ => nq_bp w _ _ _ _ _ hd)
theorem FW.finishIfDone (g : Gw) (id : Nat) (s : BpSt) : FW w 0 g (g.finishIfDone id s) := by
  unfold Gw.finishIfDone; split
  · exact FW.finishTx w g id
  · exact FW.refl w g
theorem FW.proceedSN (g : Gw) (id : Nat) (s : BpSt) (p : Pkt) : FW w 0 g (g.proceedSN id s p) := by
  unfold Gw.proceedSN
  split
  · split
    · exact ((FW.armBp w g _ _ _ _ _ (fun _ e => by cases e)).trans (FW.snSend w _ _ _)).trans (FW.finishIfDone w _ _ _)
    · exact FW.refl w g
  · exact FW.refl w g
theorem FW.proceedMQ (g : Gw) (id : Nat) (s : BpSt) (p : MqPkt) (h : w.W p = false) : FW w 0 g (g.proceedMQ id s p) := by
  unfold Gw.proceedMQ
  split
  · split
    · exact ((FW.armBp w g _ _ _ _ _ (fun _ e => by cases e; exact h)).trans (FW.mqttSend w _ _ h)).trans (FW.finishIfDone w _ _ _)
    · exact FW.refl w g
  · exact FW.refl w g

theorem FW.storeClientPub1 (g : Gw) (q : UInt8) (tid mid : UInt16) : FW w 0 g (g.storeClientPub1 q tid mid) := by
  unfold Gw.storeClientPub1
  split
  · exact (FW.newTx w g _ _ _ (nq_clientPub1 w _)).trans (FW.storeById w _ _ _)
  · exact FW.refl w g
theorem FW.handleClientPublish (g : Gw) (dup : Bool) (q : UInt8) (r : Bool) (tit : UInt8) (tid mid : UInt16) (d : Bytes) :
    FW w w.nPub g (g.handleClientPublish dup q r tit tid mid d) := by
  unfold Gw.handleClientPublish
  split
  · exact (FW.fail w g _).mono (Nat.zero_le _)
  · exact (FW.fail w g _).mono (Nat.zero_le _)
  · split
    · exact (FW.fail w g _).mono (Nat.zero_le _)
    · exact (FW.storeClientPub1 w g _ _ _).before ((FW.mqttSendC w _ _).mono (w.publish _ _ _ _ _ _))
theorem FW.forwardSubscribe (g : Gw) (dup : Bool) (q : UInt8) (mid : UInt16) (tp : Bytes) (tid : UInt16) :
    FW w w.nSub g (g.forwardSubscribe dup q mid tp tid) := by
  unfold Gw.forwardSubscribe
  split
  · exact (FW.fail w g _).mono (Nat.zero_le _)
  · exact ((FW.newTx w g _ _ _ (nq_subscribe w _)).trans (FW.storeById w _ _ _)).before
      ((FW.mqttSendC w _ _).mono (w.subscribe _ _ _ _))
theorem FW.handleSubscribe (g : Gw) (dup : Bool) (q tit : UInt8) (mid tid : UInt16) (n : Bytes) :
    FW w w.nSub g (g.handleSubscribe dup q tit mid tid n) := by
  unfold Gw.handleSubscribe
  split
  · exact (FW.snSend w g _ _).mono (Nat.zero_le _)
  · split
    · split
      · split
        · exact FW.forwardSubscribe w g _ _ _ _ _
        · split
          · rename_i hn
            exact ((FW.newTopicId' w hn).trans (FW.storeRegistered w _ _ _)).before (FW.forwardSubscribe w _ _ _ _ _ _)
          · rename_i hn
            exact ((FW.newTopicId' w hn).trans (FW.snSend w _ _ _)).mono (Nat.zero_le _)
      · exact FW.forwardSubscribe w g _ _ _ _ _
    · split
      · split
        · exact FW.forwardSubscribe w g _ _ _ _ _
        · exact (FW.fail w g _).mono (Nat.zero_le _)
      · split <;> exact FW.forwardSubscribe w g _ _ _ _ _
theorem FW.forwardUnsubscribe (g : Gw) (mid : UInt16) (tp : Bytes) : FW w w.nUnsub g (g.forwardUnsubscribe mid tp) := by
  unfold Gw.forwardUnsubscribe
  split
  · exact (FW.fail w g _).mono (Nat.zero_le _)
  · exact (FW.mqttSendC w g _).mono (w.unsubscribe _ _)
theorem FW.handleUnsubscribe (g : Gw) (tit : UInt8) (mid tid : UInt16) (n : Bytes) :
    FW w w.nUnsub g (g.handleUnsubscribe tit mid tid n) := by
  unfold Gw.handleUnsubscribe
  split
  · exact FW.forwardUnsubscribe w g _ _
  · split
    · split
      · exact FW.forwardUnsubscribe w g _ _
      · exact (FW.fail w g _).mono (Nat.zero_le _)
    · split <;> exact FW.forwardUnsubscribe w g _ _
theorem FW.handleRegister (g : Gw) (mid : UInt16) (n : Bytes) : FW w 0 g (g.handleRegister mid n) := by
  unfold Gw.handleRegister
  split
  · exact FW.snSend w g _ _
  · split
    · exact FW.snSend w g _ _
    · split
      · rename_i hn
        exact ((FW.newTopicId' w hn).trans (FW.storeRegistered w _ _ _)).trans (FW.snSend w _ _ _)
      · rename_i hn
        exact (FW.newTopicId' w hn).trans (FW.snSend w _ _ _)
theorem FW.bpRegack (g : Gw) (t : Tx) (q : UInt8) (s : BpSt) (d : BpData) (snp : Option Pkt) (rc : UInt8) :
    FW w 0 g (g.bpRegack t q s d snp rc) := by
  unfold Gw.bpRegack
  split
  · exact FW.refl w g
  · split
    · exact FW.finishTx w g _
    · split
      · exact (FW.storeRegistered w g _ _).trans (FW.proceedSN w _ _ _ _)
      · exact FW.refl w g
theorem FW.startBrokerPub (g : Gw) (q : UInt8) (m : UInt16) (s0 : BpSt) (snp : Option Pkt) (s : BpSt) (p : Pkt) :
    FW w 0 g (g.startBrokerPub q m s0 snp s p) := by
  unfold Gw.startBrokerPub
  exact ((FW.newTx w g _ _ _ (nq_bp w _ _ _ _ _ (fun _ e => by cases e))).trans (FW.storeByIdB w _ _ _)).trans (FW.proceedSN w _ _ _ _)
theorem FW.handleBrokerPublish (g : Gw) (dup : Bool) (q : UInt8) (r : Bool) (mid : UInt16) (tp pl : Bytes) :
    FW w 0 g (g.handleBrokerPublish dup q r mid tp pl) := by
  unfold Gw.handleBrokerPublish
  split
  · exact FW.refl w g
  · split
    · exact FW.refl w g
    · split
      · split
        · exact FW.snSend w g _ _
        · split
          · exact FW.fail w g _
          · exact FW.startBrokerPub w g _ _ _ _ _ _
      · split
        · exact FW.fail w g _
        · split
          · exact FW.fail w g _
          · split
            · rename_i hn; exact (FW.registrationTopicId' w hn).trans (FW.fail w _ _)
            · rename_i hn; exact (FW.registrationTopicId' w hn).trans (FW.startBrokerPub w _ _ _ _ _ _ _)


/-! ### the connect exchange, timers -/

theorem FW.connAuthenticated (g : Gw) (t : Tx) (f : ConnFields) : FW w 0 g (g.connAuthenticated t f) := by
  unfold Gw.connAuthenticated
  split
  · exact (FW.setTx w g _ (fun _ => nq_connect w _ _)).trans (FW.snSend w _ _ _)
  · exact (FW.setTx w g _ (fun _ => nq_connect w _ _)).trans (FW.mqttSend w _ _ (w.connect f))

theorem FW.sendConnack (g : Gw) (rc : UInt8) : FW w 0 g (g.sendConnack rc) := FW.snSend w g _ _

theorem FW.connAuth (g : Gw) (t : Tx) (st : ConnSt) (f : ConnFields) (m d : Bytes) : FW w 0 g (g.connAuth t st f m d) := by
  unfold Gw.connAuth
  split
  · exact FW.refl w g
  · split
    · split
      · exact (FW.finishTx w g _).trans (FW.fail w _ _)
      · exact FW.connAuthenticated w g t _
    · exact ((FW.sendConnack w g _).trans (FW.finishTx w _ _)).trans (FW.fail w _ _)

theorem FW.connWillTopic (g : Gw) (t : Tx) (st : ConnSt) (f : ConnFields) (q : UInt8) (r : Bool) (tp : Bytes) :
    FW w 0 g (g.connWillTopic t st f q r tp) := by
  unfold Gw.connWillTopic
  split
  · exact FW.refl w g
  · split
    · exact (FW.finishTx w g _).trans (FW.fail w _ _)
    · exact (FW.setTx w g _ (fun _ => nq_connect w _ _)).trans (FW.snSend w _ _ _)

theorem FW.connWillMsg (g : Gw) (t : Tx) (st : ConnSt) (f : ConnFields) (m : Bytes) : FW w 0 g (g.connWillMsg t st f m) := by
  unfold Gw.connWillMsg
  split
  · exact FW.refl w g
  · exact (FW.setTx w g _ (fun _ => nq_connect w _ _)).trans (FW.mqttSend w _ _ (w.connect _))

theorem FW.connConnack (g : Gw) (t : Tx) (st : ConnSt) (rc : UInt8) : FW w 0 g (g.connConnack t st rc) := by
  unfold Gw.connConnack
  split
  · exact FW.refl w g
  · split
    · exact ((FW.sendConnack w g _).trans (FW.finishTx w _ _)).trans (FW.fail w _ _)
    · have h0 : FW w 0 g ({ g with st := .active } : Gw) := FW.of_eq w rfl rfl
      exact (h0.trans (FW.sendConnack w _ _)).trans (FW.finishTx w _ _)

theorem FW.cancelOldConnect (g : Gw) : FW w 0 g g.cancelOldConnect := by
  unfold Gw.cancelOldConnect
  split
  · exact FW.finishTx w g _
  · exact FW.refl w g

theorem FW.startConnect (g : Gw) (f : ConnFields) : FW w 0 g (g.startConnect f) := by
  unfold Gw.startConnect
  have h1 : FW w 0 g (g.newTx (.connect .awaitingAuth f) .connectType (some (g.now + Gen.connectTransactionTimeout))).2 :=
    FW.newTx w g _ _ _ (nq_connect w _ _)
  refine (h1.trans (FW.setConnectTx w _ g.nextTx)).trans ?_
  unfold Gw.startConnectTx
  split
  · exact FW.refl w _
  · split
    · exact FW.connAuthenticated w _ _ _
    · exact FW.refl w _

theorem foldl_snSend_FW (its : List BufItem) : ∀ g : Gw, FW w 0 g (its.foldl (fun acc it => acc.snSend it.pkt it.tx) g) := by
  induction its with
  | nil => intro g; exact FW.refl w g
  | cons x xs ih => intro g; simp only [List.foldl_cons]; exact (FW.snSend w g _ _).trans (ih _)

theorem FW.flushBuffer (g : Gw) : FW w 0 g g.flushBuffer := by
  unfold Gw.flushBuffer
  simp only
  have h0 : FW w 0 g ({ g with buffer := [] } : Gw) := FW.of_eq w rfl rfl
  have h1 := h0.trans (foldl_snSend_FW w g.buffer _)
  exact h1.trans (FW.of_eq w rfl rfl)

theorem FW.handleConnect (g : Gw) (will clean : Bool) (dur : UInt16) (cid : Bytes) :
    FW w 0 g (g.handleConnect will clean dur cid) := by
  unfold Gw.handleConnect
  split
  · have h0 : FW w 0 g ({ g.cancelSleepPinger with st := .active } : Gw) := FW.of_eq w rfl rfl
    exact (h0.trans (FW.snSend w _ _ _)).trans (FW.flushBuffer w _)
  · split
    · exact FW.snSend w g _ _
    · have h0 : FW w 0 g ({ g with keepAlive := dur, clientId := cid } : Gw) := FW.of_eq w rfl rfl
      exact (h0.trans (FW.cancelOldConnect w _)).trans (FW.startConnect w _ _)

theorem FW.handlePingreq (g : Gw) : FW w 0 g g.handlePingreq := by
  unfold Gw.handlePingreq
  split
  · exact ((((FW.setSt w g _).trans (FW.flushBuffer w _)).trans (FW.snSend w _ _ _)).trans (FW.setSt w _ _)).trans (FW.armSleepPinger w _ _)
  · exact FW.mqttSend w g _ w.pingreq

theorem FW.handleSleep (g : Gw) (d : UInt16) : FW w 0 g (g.handleSleep d) := by
  unfold Gw.handleSleep
  have h0 : FW w 0 g ({ g with sleepDur := d } : Gw) := FW.of_eq w rfl rfl
  have h1 : FW w 0 g (({ g with sleepDur := d } : Gw).armSleepPinger d) := h0.trans (FW.armSleepPinger w _ _)
  have h2 : ∀ x : Gw, FW w 0 x x.clearBufferUnlessAsleep := by
    intro x; unfold Gw.clearBufferUnlessAsleep; split
    · exact FW.clearBuffer w x
    · exact FW.refl w x
  exact ((h1.trans (h2 _)).trans (FW.snSendNow w _ _)).trans (FW.setSt w _ _)

theorem FW.handlePlainDisconnect (g : Gw) : FW w 0 g g.handlePlainDisconnect := by
  unfold Gw.handlePlainDisconnect
  exact (((FW.mqttSend w g _ w.disconnect).trans (FW.setSt w _ _)).trans (FW.snSend w _ _ _)).trans (FW.fail w _ _)

theorem FW.handleDisconnect (g : Gw) (d : UInt16) : FW w 0 g (g.handleDisconnect d) := by
  unfold Gw.handleDisconnect
  split
  · exact FW.handlePlainDisconnect w g
  · exact FW.handleSleep w g d

theorem FW.retryExpire (g : Gw) (t : Tx) (ht : t ∈ g.txs) : FW w 0 g (g.retryExpire t) := by
  have keepT : ∀ (tm : Option Nat), FW w 0 g (g.setTx { t with timer := tm }) := fun tm => FW.setTx w g _ (fun hA => hA t ht)
  unfold Gw.retryExpire
  split
  · rename_i q st data snp n hk0
    split
    · exact keepT none
    · split
      · exact keepT _
      · split
        · exact FW.finishTx w g _
        · split
          · rename_i p _
            have h1 : FW w 0 g ({ g with buffer := g.buffer.map (fun (b : BufItem) =>
                if b.tx == some t.id && b.pkt == p then { b with pkt := setDup p } else b) } : Gw) := FW.of_eq w rfl rfl
            exact (h1.trans (FW.setTx w _ _ (fun _ => nq_bp w _ _ _ _ _ (fun _ e => by cases e)))).trans (FW.snSend w _ _ _)
          · rename_i p _
            refine ⟨fun hA => ?_⟩
            have hp : w.W p = false := hA t ht q st p snp n hk0
            have h2 := (FW.setTx w g { t with kind := .brokerPub q st (.mq p) snp (n + 1), timer := some (g.now + g.cfg.retryDelay) }
              (fun _ => nq_bp w _ _ _ _ _ (fun p' e => by cases e; exact hp))).trans (FW.mqttSend w _ p hp)
            exact h2.keep hA
          · exact FW.finishTx w g _
  · exact FW.refl w g

theorem FW.txExpire (g : Gw) (t : Tx) (ht : t ∈ g.txs) : FW w 0 g (g.txExpire t) := by
  have keepT : ∀ (tm : Option Nat), FW w 0 g (g.setTx { t with timer := tm }) := fun tm => FW.setTx w g _ (fun hA => hA t ht)
  unfold Gw.txExpire
  split
  · split
    · exact keepT none
    · exact (FW.finishTx w g _).trans (FW.fail w _ _)
  · split
    · exact keepT none
    · exact FW.finishTx w g _
  · split
    · exact keepT none
    · exact FW.finishTx w g _
  · exact FW.retryExpire w g t ht

theorem FW.firePing (g : Gw) (i : Nat) : FW w 0 g (g.firePing i) := by
  unfold Gw.firePing
  have h0 : FW w 0 g ({ g with pingers := g.pingers.mapIdx (fun j (p : Pinger) =>
      if j = i then { p with next := p.next + p.period } else p) } : Gw) := FW.of_eq w rfl rfl
  exact h0.trans (FW.pingBroker w _)

theorem FW.fireDue (g : Gw) (d : Due) : FW w 0 g (g.fireDue d) := by
  unfold Gw.fireDue
  split
  · unfold Gw.fireTx
    split
    · rename_i t ht
      exact (FW.setNow w g _).trans (FW.txExpire w _ t (getTx_mem' ht))
    · exact FW.setNow w g _
  · exact (FW.setNow w g _).trans (FW.firePing w _ _)
  · exact FW.of_eq w rfl rfl


end Bisquitt.Gw
