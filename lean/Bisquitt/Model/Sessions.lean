/-
  The gateway as a whole (gateway/gateway.go, `ListenAndServe`): one session — one `handler1`,
  one broker connection — per MQTT-SN peer address; a datagram, a broker packet or a timer of a
  session is an event of that session only.
-/
import Bisquitt.Model.Gateway

namespace Bisquitt.Gw

structure Gateway where
  cfg : Cfg
  idMin : UInt16
  idMax : UInt16
  sessions : List (Nat × Gw) := []        -- peer address ↦ session (first binding live)

namespace Gateway

/-- the session of a peer: created on its first datagram -/
def session (gw : Gateway) (a : Nat) : Gw := (gw.sessions.lookup a).getD (Gw.init gw.cfg gw.idMin gw.idMax)

/-- an event of the session of peer `a` -/
def step (gw : Gateway) (a t : Nat) (ev : Gw.Event) : Gateway :=
  { gw with sessions := (a, (gw.session a).step t ev) :: gw.sessions }

def run (gw : Gateway) (evs : List (Nat × Nat × Gw.Event)) : Gateway :=
  evs.foldl (fun gw e => gw.step e.1 e.2.1 e.2.2) gw

end Gateway
end Bisquitt.Gw
