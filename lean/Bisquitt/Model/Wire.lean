/-
  L1 wire codec: packets/header.go, packets/packets.go and every packets1/*.go
  `Pack`/`Unpack`, transcribed function by function.  Core-only, executable.
-/
import Bisquitt.Model.Bytes
import Bisquitt.Gen.Facts

namespace Bisquitt

/-- `packets.Header` (with the header form remembered, see packets/header.go). -/
structure Header where
  pktLength : UInt16
  pktType : UInt8
  long : Bool
  deriving Repr, DecidableEq

namespace Header
/-- `Header.SetVarPartLength`: uint16 arithmetic, wraps like Go. -/
def setVarPartLength (h : Header) (length : UInt16) : Header :=
  if length + Gen.shortHeaderLength ≤ 255 then
    { h with pktLength := length + Gen.shortHeaderLength, long := false }
  else
    { h with pktLength := length + Gen.longHeaderLength, long := true }

def headerLength (h : Header) : UInt16 :=
  if h.long then Gen.longHeaderLength else Gen.shortHeaderLength

def varPartLength (h : Header) : UInt16 := h.pktLength - h.headerLength

/-- `NewHeader` -/
def new (t : UInt8) (varLen : UInt16) : Header :=
  setVarPartLength { pktLength := 0, pktType := t, long := false } varLen

/-- `Header.PackToBuffer` -/
def packToBuffer (h : Header) : Bytes :=
  (if h.long then Gen.longPacketFlag :: enc16 h.pktLength else [h.pktLength.toUInt8])
    ++ [h.pktType]

/-- `Header.Unpack` -/
def unpack (buf : Bytes) : Res Header :=
  if buf.length < 2 then .err else do
    let lengthByte ← getB buf 0
    if lengthByte = Gen.longPacketFlag then
      if buf.length < Gen.longHeaderLength.toNat then .err else do
        let l ← get16 buf 1
        let t ← getB buf 3
        pure { pktLength := l, pktType := t, long := true }
    else do
      let t ← getB buf 1
      pure { pktLength := lengthByte.toUInt16, pktType := t, long := false }
end Header

/-- The 28 MQTT-SN 1.2 packet structs of packets1/ (without the embedded Header). -/
inductive Pkt where
  | advertise (gwId : UInt8) (duration : UInt16)
  | searchgw (radius : UInt8)
  | gwinfo (gwId : UInt8) (addr : Bytes)
  | auth (reason : UInt8) (method : Bytes) (data : Bytes)
  | connect (will clean : Bool) (protoId : UInt8) (duration : UInt16) (clientId : Bytes)
  | connack (rc : UInt8)
  | willtopicreq
  | willtopic (qos : UInt8) (retain : Bool) (topic : Bytes)
  | willmsgreq
  | willmsg (msg : Bytes)
  | register (topicId msgId : UInt16) (name : Bytes)
  | regack (topicId msgId : UInt16) (rc : UInt8)
  | publish (dup : Bool) (qos : UInt8) (retain : Bool) (tit : UInt8)
      (topicId msgId : UInt16) (data : Bytes)
  | puback (topicId msgId : UInt16) (rc : UInt8)
  | pubcomp (msgId : UInt16)
  | pubrec (msgId : UInt16)
  | pubrel (msgId : UInt16)
  | subscribe (dup : Bool) (qos tit : UInt8) (msgId topicId : UInt16) (name : Bytes)
  | suback (qos : UInt8) (topicId msgId : UInt16) (rc : UInt8)
  | unsubscribe (tit : UInt8) (msgId topicId : UInt16) (name : Bytes)
  | unsuback (msgId : UInt16)
  | pingreq (clientId : Bytes)
  | pingresp
  | disconnect (duration : UInt16)
  | willtopicupd (qos : UInt8) (retain : Bool) (topic : Bytes)
  | willtopicresp (rc : UInt8)
  | willmsgupd (msg : Bytes)
  | willmsgresp (rc : UInt8)
  deriving Repr, DecidableEq

namespace Pkt
def typeCode : Pkt → UInt8
  | advertise .. => Gen.tADVERTISE | searchgw .. => Gen.tSEARCHGW | gwinfo .. => Gen.tGWINFO
  | auth .. => Gen.tAUTH | connect .. => Gen.tCONNECT | connack .. => Gen.tCONNACK
  | willtopicreq => Gen.tWILLTOPICREQ | willtopic .. => Gen.tWILLTOPIC
  | willmsgreq => Gen.tWILLMSGREQ | willmsg .. => Gen.tWILLMSG
  | register .. => Gen.tREGISTER | regack .. => Gen.tREGACK | publish .. => Gen.tPUBLISH
  | puback .. => Gen.tPUBACK | pubcomp .. => Gen.tPUBCOMP | pubrec .. => Gen.tPUBREC
  | pubrel .. => Gen.tPUBREL | subscribe .. => Gen.tSUBSCRIBE | suback .. => Gen.tSUBACK
  | unsubscribe .. => Gen.tUNSUBSCRIBE | unsuback .. => Gen.tUNSUBACK
  | pingreq .. => Gen.tPINGREQ | pingresp => Gen.tPINGRESP | disconnect .. => Gen.tDISCONNECT
  | willtopicupd .. => Gen.tWILLTOPICUPD | willtopicresp .. => Gen.tWILLTOPICRESP
  | willmsgupd .. => Gen.tWILLMSGUPD | willmsgresp .. => Gen.tWILLMSGRESP
end Pkt

/-! ### flags -/
def qosBits (qos : UInt8) : UInt8 := (qos <<< 5) &&& Gen.flagsQOSBits
def qosOf (b : UInt8) : UInt8 := (b &&& Gen.flagsQOSBits) >>> 5
def bit (c : Bool) (m : UInt8) : UInt8 := if c then m else 0
def hasBit (b m : UInt8) : Bool := (b &&& m) == m

def connectFlags (will clean : Bool) : UInt8 :=
  bit will Gen.flagsWillBit ||| bit clean Gen.flagsCleanSessionBit
def willTopicFlags (qos : UInt8) (retain : Bool) : UInt8 :=
  qosBits qos ||| bit retain Gen.flagsRetainBit
def publishFlags (dup : Bool) (qos : UInt8) (retain : Bool) (tit : UInt8) : UInt8 :=
  bit dup Gen.flagsDUPBit ||| qosBits qos ||| bit retain Gen.flagsRetainBit
    ||| (tit &&& Gen.flagsTopicIDTypeBits)
def subscribeFlags (dup : Bool) (qos tit : UInt8) : UInt8 :=
  bit dup Gen.flagsDUPBit ||| qosBits qos ||| (tit &&& Gen.flagsTopicIDTypeBits)

/-! ### Unpack, one function per packet type -/
def len16 (bs : Bytes) : UInt16 := UInt16.ofNat bs.length

def unpackAdvertise (buf : Bytes) : Res Pkt :=
  if buf.length ≠ Gen.advertiseVarPartLength.toNat then .err else do
    let g ← getB buf 0; let d ← get16 buf 1; pure (.advertise g d)

def unpackSearchGw (buf : Bytes) : Res Pkt :=
  if buf.length ≠ Gen.searchGwVarPartLength.toNat then .err else do
    let r ← getB buf 0; pure (.searchgw r)

def unpackGwInfo (buf : Bytes) : Res Pkt :=
  if buf.length < Gen.gwInfoHeaderLength.toNat then .err else do
    let g ← getB buf 0; let a ← sliceFrom buf 1; pure (.gwinfo g a)

def unpackAuth (buf : Bytes) : Res Pkt :=
  if buf.length < 2 then .err else do
    let reason ← getB buf 0
    let methodLen ← getB buf 1
    if buf.length < 2 + methodLen.toNat then .err else do
      let m ← slice buf 2 (2 + methodLen.toNat)
      let d ← sliceFrom buf (2 + methodLen.toNat)
      pure (.auth reason m d)

def unpackConnect (buf : Bytes) : Res Pkt :=
  if buf.length < (Gen.connectHeaderLength.toNat + 1) then .err else do
    let f ← getB buf 0
    let proto ← getB buf 1
    if proto ≠ 1 then .err else do
      let d ← get16 buf 2
      let cid ← sliceFrom buf Gen.connectHeaderLength.toNat
      pure (.connect (hasBit f Gen.flagsWillBit) (hasBit f Gen.flagsCleanSessionBit) proto d cid)

def unpackConnack (buf : Bytes) : Res Pkt :=
  if buf.length ≠ Gen.connackVarPartLength.toNat then .err else do
    let rc ← getB buf 0; pure (.connack rc)

def unpackWillTopicReq (buf : Bytes) : Res Pkt :=
  if buf.length ≠ Gen.willTopicReqVarPartLength.toNat then .err else pure .willtopicreq

def unpackWillTopicLike (mk : UInt8 → Bool → Bytes → Pkt) (buf : Bytes) : Res Pkt :=
  match buf.length with
  | 0 => pure (mk 0 false [])
  | 1 => .err
  | _ => do
    let f ← getB buf 0
    let t ← sliceFrom buf 1
    pure (mk (qosOf f) (hasBit f Gen.flagsRetainBit) t)

def unpackWillMsgReq (buf : Bytes) : Res Pkt :=
  if buf.length ≠ Gen.willMsgReqVarPartLength.toNat then .err else pure .willmsgreq

def unpackRegister (buf : Bytes) : Res Pkt :=
  if buf.length ≤ Gen.registerHeaderLength.toNat then .err else do
    let t ← get16 buf 0; let m ← get16 buf 2; let n ← sliceFrom buf 4
    pure (.register t m n)

def unpackRegack (buf : Bytes) : Res Pkt :=
  if buf.length ≠ Gen.regackVarPartLength.toNat then .err else do
    let t ← get16 buf 0; let m ← get16 buf 2; let rc ← getB buf 4
    pure (.regack t m rc)

def unpackPublish (buf : Bytes) : Res Pkt :=
  if buf.length < Gen.publishHeaderLength.toNat then .err else do
    let f ← getB buf 0
    let t ← get16 buf 1; let m ← get16 buf 3; let d ← sliceFrom buf 5
    pure (.publish (hasBit f Gen.flagsDUPBit) (qosOf f) (hasBit f Gen.flagsRetainBit)
      (f &&& Gen.flagsTopicIDTypeBits) t m d)

def unpackPuback (buf : Bytes) : Res Pkt :=
  if buf.length ≠ Gen.pubackVarPartLength.toNat then .err else do
    let t ← get16 buf 0; let m ← get16 buf 2; let rc ← getB buf 4
    pure (.puback t m rc)

def unpackMsgIdOnly (mk : UInt16 → Pkt) (expected : UInt16) (buf : Bytes) : Res Pkt :=
  if buf.length ≠ expected.toNat then .err else do
    let m ← get16 buf 0; pure (mk m)

def unpackSubscribe (buf : Bytes) : Res Pkt :=
  if buf.length ≤ Gen.subscribeHeaderLength.toNat then .err else do
    let f ← getB buf 0
    let m ← get16 buf 1
    let tit := f &&& Gen.flagsTopicIDTypeBits
    let dup := hasBit f Gen.flagsDUPBit
    let qos := qosOf f
    if tit = Gen.TIT_STRING then do
      let n ← sliceFrom buf 3
      pure (.subscribe dup qos tit m 0 n)
    else if tit = Gen.TIT_PREDEFINED ∨ tit = Gen.TIT_SHORT then
      if buf.length ≠ (Gen.subscribeHeaderLength.toNat + 2) then .err else do
        let t ← get16 buf 3
        pure (.subscribe dup qos tit m t [])
    else .err

def unpackSuback (buf : Bytes) : Res Pkt :=
  if buf.length ≠ Gen.subackVarPartLength.toNat then .err else do
    let f ← getB buf 0
    let t ← get16 buf 1; let m ← get16 buf 3; let rc ← getB buf 5
    pure (.suback (qosOf f) t m rc)

def unpackUnsubscribe (buf : Bytes) : Res Pkt :=
  if buf.length ≤ Gen.unsubscribeHeaderLength.toNat then .err else do
    let f ← getB buf 0
    let m ← get16 buf 1
    let tit := f &&& Gen.flagsTopicIDTypeBits
    if tit = Gen.TIT_STRING then do
      let n ← sliceFrom buf 3
      pure (.unsubscribe tit m 0 n)
    else if tit = Gen.TIT_PREDEFINED ∨ tit = Gen.TIT_SHORT then
      if buf.length ≠ (Gen.unsubscribeHeaderLength.toNat + 2) then .err else do
        let t ← get16 buf 3
        pure (.unsubscribe tit m t [])
    else .err

def unpackDisconnect (buf : Bytes) : Res Pkt :=
  if buf.length = Gen.disconnectDurationLength.toNat then do
    let d ← get16 buf 0; pure (.disconnect d)
  else if buf.length = 0 then pure (.disconnect 0)
  else .err

def unpackRcOnly (mk : UInt8 → Pkt) (expected : UInt16) (buf : Bytes) : Res Pkt :=
  if buf.length ≠ expected.toNat then .err else do
    let rc ← getB buf 0; pure (mk rc)

def unpackWillMsg (buf : Bytes) : Res Pkt := pure (.willmsg buf)
def unpackPingreq (buf : Bytes) : Res Pkt := pure (.pingreq buf)
def unpackWillMsgUpd (buf : Bytes) : Res Pkt := pure (.willmsgupd buf)
def unpackPingresp (buf : Bytes) : Res Pkt :=
  if buf.length ≠ Gen.pingrespVarPartLength.toNat then .err else pure .pingresp

/-- the `switch` of `NewPacketWithHeader`: packet type code ↦ the struct's `Unpack`. -/
def unpackTable : List (UInt8 × (Bytes → Res Pkt)) := [
  (Gen.tADVERTISE, unpackAdvertise),
  (Gen.tSEARCHGW, unpackSearchGw),
  (Gen.tGWINFO, unpackGwInfo),
  (Gen.tAUTH, unpackAuth),
  (Gen.tCONNECT, unpackConnect),
  (Gen.tCONNACK, unpackConnack),
  (Gen.tWILLTOPICREQ, unpackWillTopicReq),
  (Gen.tWILLTOPIC, unpackWillTopicLike .willtopic),
  (Gen.tWILLMSGREQ, unpackWillMsgReq),
  (Gen.tWILLMSG, unpackWillMsg),
  (Gen.tREGISTER, unpackRegister),
  (Gen.tREGACK, unpackRegack),
  (Gen.tPUBLISH, unpackPublish),
  (Gen.tPUBACK, unpackPuback),
  (Gen.tPUBCOMP, unpackMsgIdOnly .pubcomp Gen.pubcompVarPartLength),
  (Gen.tPUBREC, unpackMsgIdOnly .pubrec Gen.pubrecVarPartLength),
  (Gen.tPUBREL, unpackMsgIdOnly .pubrel Gen.pubrelVarPartLength),
  (Gen.tSUBSCRIBE, unpackSubscribe),
  (Gen.tSUBACK, unpackSuback),
  (Gen.tUNSUBSCRIBE, unpackUnsubscribe),
  (Gen.tUNSUBACK, unpackMsgIdOnly .unsuback Gen.unsubackVarPartLength),
  (Gen.tPINGREQ, unpackPingreq),
  (Gen.tPINGRESP, unpackPingresp),
  (Gen.tDISCONNECT, unpackDisconnect),
  (Gen.tWILLTOPICUPD, unpackWillTopicLike .willtopicupd),
  (Gen.tWILLTOPICRESP, unpackRcOnly .willtopicresp Gen.willTopicRespVarPartLength),
  (Gen.tWILLMSGUPD, unpackWillMsgUpd),
  (Gen.tWILLMSGRESP, unpackRcOnly .willmsgresp Gen.willMsgRespVarPartLength)]

/-- `NewPacketWithHeader` followed by the type's `Unpack` (unknown type: error). -/
def unpackBody (t : UInt8) (buf : Bytes) : Res Pkt :=
  match unpackTable.lookup t with
  | some f => f buf
  | none => .err

/-- `packets1.ReadPacket` on the datagram `bs` (already cut to the bytes read). -/
def decode (bs : Bytes) : Res (Header × Pkt) := do
  let h ← Header.unpack bs
  -- NewPacketWithHeader's `default:` arm is inside unpackBody (same outcome: error)
  let body ← sliceFrom bs h.headerLength.toNat
  let p ← unpackBody h.pktType body
  pure (h, p)

/-! ### Pack -/

/-- the `computeLength()` call at the top of the variable-size `Pack`s; fixed-size packet
    types keep whatever header they carry. -/
def computeLength (h : Header) : Pkt → Header
  | .gwinfo _ a => h.setVarPartLength (Gen.gwInfoHeaderLength + len16 a)
  | .auth _ m d => h.setVarPartLength (Gen.authHeaderLength + len16 m + len16 d)
  | .connect _ _ _ _ cid => h.setVarPartLength (Gen.connectHeaderLength + len16 cid)
  | .willtopic _ _ t | .willtopicupd _ _ t =>
      if t.length = 0 then h.setVarPartLength 0
      else h.setVarPartLength (Gen.willTopicFlagsLength + len16 t)
  | .willmsg m | .willmsgupd m => h.setVarPartLength (len16 m)
  | .register _ _ n => h.setVarPartLength (Gen.registerHeaderLength + len16 n)
  | .publish _ _ _ _ _ _ d => h.setVarPartLength (Gen.publishHeaderLength + len16 d)
  | .subscribe _ _ tit _ _ n =>
      h.setVarPartLength (Gen.subscribeHeaderLength +
        (if tit = Gen.TIT_STRING then len16 n
         else if tit = Gen.TIT_PREDEFINED ∨ tit = Gen.TIT_SHORT then 2 else 0))
  | .unsubscribe tit _ _ n =>
      h.setVarPartLength (Gen.unsubscribeHeaderLength +
        (if tit = Gen.TIT_STRING then len16 n
         else if tit = Gen.TIT_PREDEFINED ∨ tit = Gen.TIT_SHORT then 2 else 0))
  | .pingreq cid => h.setVarPartLength (len16 cid)
  | .disconnect d =>
      if d = 0 then h.setVarPartLength 0 else h.setVarPartLength Gen.disconnectDurationLength
  | _ => h

def packBody (h : Header) : Pkt → Bytes
  | .advertise g d => g :: enc16 d
  | .searchgw r => [r]
  | .gwinfo g a => g :: a
  | .auth r m d => r :: (UInt8.ofNat m.length) :: (m ++ d)
  | .connect w c p d cid => connectFlags w c :: p :: (enc16 d ++ cid)
  | .connack rc => [rc]
  | .willtopicreq => []
  | .willtopic q r t | .willtopicupd q r t =>
      if h.varPartLength > 0 then willTopicFlags q r :: t else []
  | .willmsgreq => []
  | .willmsg m | .willmsgupd m => m
  | .register t m n => enc16 t ++ enc16 m ++ n
  | .regack t m rc => enc16 t ++ enc16 m ++ [rc]
  | .publish dup q r tit t m d => publishFlags dup q r tit :: (enc16 t ++ enc16 m ++ d)
  | .puback t m rc => enc16 t ++ enc16 m ++ [rc]
  | .pubcomp m | .pubrec m | .pubrel m | .unsuback m => enc16 m
  | .subscribe dup q tit m t n =>
      subscribeFlags dup q tit :: (enc16 m ++
        (if tit = Gen.TIT_STRING then n
         else if tit = Gen.TIT_PREDEFINED ∨ tit = Gen.TIT_SHORT then enc16 t else []))
  | .suback q t m rc => qosBits q :: (enc16 t ++ enc16 m ++ [rc])
  | .unsubscribe tit m t n =>
      (tit &&& Gen.flagsTopicIDTypeBits) :: (enc16 m ++
        (if tit = Gen.TIT_STRING then n
         else if tit = Gen.TIT_PREDEFINED ∨ tit = Gen.TIT_SHORT then enc16 t else []))
  | .pingreq cid => cid
  | .pingresp => []
  | .disconnect d => if h.varPartLength > 0 then enc16 d else []
  | .willtopicresp rc | .willmsgresp rc => [rc]

/-- `p.Pack()` for a packet struct whose embedded header is `h`. -/
def pack (h : Header) (p : Pkt) : Bytes :=
  let h' := computeLength h p
  h'.packToBuffer ++ packBody h' p

/-- variable-part length passed to `NewHeader` by the `NewXxx` constructors of the
    fixed-size packet types (variable-size ones pass 0 and call computeLength). -/
def fixedVarPartLength : Pkt → UInt16
  | .advertise .. => Gen.advertiseVarPartLength
  | .searchgw .. => Gen.searchGwVarPartLength
  | .connack .. => Gen.connackVarPartLength
  | .willtopicreq => Gen.willTopicReqVarPartLength
  | .willmsgreq => Gen.willMsgReqVarPartLength
  | .regack .. => Gen.regackVarPartLength
  | .puback .. => Gen.pubackVarPartLength
  | .pubcomp .. => Gen.pubcompVarPartLength
  | .pubrec .. => Gen.pubrecVarPartLength
  | .pubrel .. => Gen.pubrelVarPartLength
  | .suback .. => Gen.subackVarPartLength
  | .unsuback .. => Gen.unsubackVarPartLength
  | .pingresp => Gen.pingrespVarPartLength
  | .willtopicresp .. => Gen.willTopicRespVarPartLength
  | .willmsgresp .. => Gen.willMsgRespVarPartLength
  | _ => 0

/-- header of a packet built by its `NewXxx` constructor -/
def newHeader (p : Pkt) : Header :=
  computeLength (Header.new p.typeCode (fixedVarPartLength p)) p

/-- `NewXxx(...).Pack()` -/
def encode (p : Pkt) : Bytes := pack (newHeader p) p

/-- `packets.EncodeShortTopic` -/
def encodeShortTopic (topic : Bytes) : UInt16 :=
  (match topic[0]? with | some b => b.toUInt16 <<< 8 | none => 0) |||
  (match topic[1]? with | some b => b.toUInt16 | none => 0)

/-- `packets.DecodeShortTopic` -/
def decodeShortTopic (id : UInt16) : Bytes := enc16 id

def isShortTopic (topic : Bytes) : Bool := topic.length == 2

end Bisquitt
