/-
  L3: one gateway session — gateway/handler1.go and the seven gateway/*_transaction.go files
  as a timed, event-driven state machine (atomic-handler semantics: one call of
  handleMqttSn / handleMqtt / a timer callback is one step, DESIGN.md §3.2).

  Events: a datagram from the client, a packet from the broker, broker EOF / garbage,
  gateway shutdown, and the passage of time (timers fire in deadline order).
  Outputs: datagrams to the client (bytes, produced by `encode` from the very struct the code
  builds), MQTT packets to the broker (structured), `mqClose`, `ended`.
-/
import Bisquitt.Model.Wire
import Bisquitt.Model.Topics
import Bisquitt.Model.IdSeq

namespace Bisquitt.Gw
open Bisquitt

/-! ## vocabulary -/

inductive CState where
  | disconnected | active | asleep | awake
  deriving Repr, DecidableEq

/-- MQTT 3.1.1 packets as the gateway sees them through paho's structs -/
inductive MqPkt where
  | connect (cid : Bytes) (clean : Bool) (ka : UInt16) (uflag : Bool) (user : Bytes)
      (pflag : Bool) (pass : Bytes) (will : Bool) (wq : UInt8) (wr : Bool) (wt wm : Bytes)
  | connack (rc : UInt8)
  | publish (dup : Bool) (qos : UInt8) (retain : Bool) (mid : UInt16) (topic payload : Bytes)
  | puback (mid : UInt16) | pubrec (mid : UInt16) | pubrel (mid : UInt16) | pubcomp (mid : UInt16)
  | subscribe (mid : UInt16) (dup : Bool) (topic : Bytes) (qos : UInt8)
  | suback (mid : UInt16) (hq : UInt8) (codes : List UInt8)
  | unsubscribe (mid : UInt16) (topic : Bytes)
  | unsuback (mid : UInt16)
  | pingreq | pingresp | disconnect
  | other
  deriving Repr, DecidableEq

/-- why a session ended (classification of the error the handler quits with) -/
inductive EndCls where
  | clean | illegal | mqttClosed | connectTimeout | connectFailed | snDecode | unknownTopic
  | badTopic | unsupportedSn | unsupportedMq | mqDecode | error
  deriving Repr, DecidableEq

inductive Out where
  | sn (bytes : Bytes)
  | mq (p : MqPkt)
  | mqClose
  | ended (cls : EndCls)
  /-- instrumentation, sampled by the harness after every scripted event: the client state ... -/
  | state (s : CState)
  /-- ... and the live bindings of `registeredTopics`, sorted by ID -/
  | reg (bindings : List (UInt16 × Bytes))
  /-- ... and the datagrams queued for the sleeping client -/
  | buf (queued : List Bytes)
  deriving Repr, DecidableEq

structure Cfg where
  auth : Bool
  user : Option Bytes
  pass : Option Bytes
  retryDelay : Nat           -- ms
  retryCount : Nat
  predef : Predef
  deriving Repr

/-- connect-exchange state (gateway/connect_transaction.go) -/
inductive ConnSt where
  | awaitingAuth | awaitingWillTopic | awaitingWillMsg | awaitingConnack
  deriving Repr, DecidableEq

/-- the mutable fields of the `mqConnect` packet under construction -/
structure ConnFields where
  cid : Bytes
  clean : Bool
  ka : UInt16
  uflag : Bool
  user : Bytes
  pflag : Bool
  pass : Bytes
  will : Bool
  wq : UInt8 := 0
  wr : Bool := false
  wt : Bytes := []
  wm : Bytes := []
  deriving Repr, DecidableEq

def ConnFields.toPkt (c : ConnFields) : MqPkt :=
  .connect c.cid c.clean c.ka c.uflag c.user c.pflag c.pass c.will c.wq c.wr c.wt c.wm

/-- broker-publish transaction states (gateway/broker_publish_transaction.go) -/
inductive BpSt where
  | done | awaitingRegack | awaitingPuback | awaitingPubrec | awaitingPubrel | awaitingPubcomp
  deriving Repr, DecidableEq

/-- `RetryTransaction.Data`: the packet to resend -/
inductive BpData where
  | sn (p : Pkt)
  | mq (p : MqPkt)
  | none
  deriving Repr, DecidableEq

/-- the step waits for the client (its data is an MQTT-SN packet) -/
def BpData.toClient : BpData → Bool
  | .sn _ => true
  | _ => false

inductive TxKind where
  | connect (st : ConnSt) (f : ConnFields)
  | subscribe (topicId : UInt16)
  | clientPub1 (topicId : UInt16)
  | brokerPub (qos : UInt8) (st : BpSt) (data : BpData) (snPublish : Option Pkt) (retryNum : Nat)
  deriving Repr, DecidableEq

/-- where the `finally` callback deletes from -/
inductive TxKey where
  | byId (mid : UInt16)           -- store of client-initiated exchanges
  | byIdB (mid : UInt16)          -- store of broker- / gateway-initiated exchanges
  | connectType
  deriving Repr, DecidableEq

structure Tx where
  id : Nat
  kind : TxKind
  key : TxKey
  done : Bool := false
  timer : Option Nat := none        -- deadline (ms) of the live timer
  deriving Repr, DecidableEq

/-- a sleep pinger goroutine: next ping time, and when its cancel timer fires -/
structure Pinger where
  next : Nat
  cancelAt : Nat
  period : Nat
  deriving Repr, DecidableEq

/-- a buffered packet; `tx` remembers whose `Data` pointer it is (the retry callback mutates
    the DUP flag of the very object that may sit in the buffer) -/
structure BufItem where
  pkt : Pkt
  tx : Option Nat
  deriving Repr, DecidableEq

structure Gw where
  cfg : Cfg
  now : Nat := 0
  st : CState := .disconnected
  clientId : Bytes := []
  keepAlive : UInt16 := 0
  registered : List (UInt16 × Bytes) := []     -- sync.Map TopicID ↦ name (first binding live)
  idseq : IdSeq
  exhausted : Bool := false
  regIds : List (Bytes × UInt16) := []          -- `registrationTopicIDs`: name ↦ ID of the gateway's own registrations
  buffer : List BufItem := []
  txs : List Tx := []
  nextTx : Nat := 0
  byId : List (UInt16 × Nat) := []              -- h.transactions: client's message ID ↦ transaction id
  byIdB : List (UInt16 × Nat) := []             -- h.brokerTransactions: broker's / gateway's message ID ↦ transaction id
  connectTx : Option Nat := none                 -- store: by packet type CONNECT
  pingers : List Pinger := []
  ownPings : Nat := 0                            -- PINGREQs of the gateway itself not answered yet
  sleepDur : UInt16 := 0                         -- the sleep duration the client announced last
  outs : List (Nat × Out) := []                  -- newest first, with timestamps
  cancelledAt : Option Nat := none               -- the errgroup context was cancelled
  endCls : EndCls := .clean
  endedEmitted : Bool := false
  sampledState : CState := .disconnected         -- last values reported by the instrumentation
  sampledReg : List (UInt16 × Bytes) := []
  sampledBuf : List Bytes := []
  deriving Repr

def Gw.init (cfg : Cfg) (idMin idMax : UInt16) : Gw :=
  { cfg := cfg, idseq := IdSeq.new idMin idMax }

namespace Gw

def emit (g : Gw) (o : Out) : Gw := { g with outs := (g.now, o) :: g.outs }

/-! ## low-level helpers -/

def getTx (g : Gw) (id : Nat) : Option Tx := g.txs.find? (·.id == id)
def setTx (g : Gw) (t : Tx) : Gw := { g with txs := g.txs.map fun x => if x.id == t.id then t else x }

/-- the `finally` callbacks: delete the transaction's key from the store — whatever is stored
    under it by now -/
def runFinally (g : Gw) (t : Tx) : Gw :=
  match t.key with
  | .byId mid =>
    if g.byId.lookup mid = some t.id then { g with byId := g.byId.filter (·.1 != mid) } else g
  | .byIdB mid =>
    if g.byIdB.lookup mid = some t.id then { g with byIdB := g.byIdB.filter (·.1 != mid) } else g
  | .connectType => { g with connectTx := none }

/-- `Success()` / `Fail(e)`: stop the timer, run `finally` once -/
def finishTx (g : Gw) (id : Nat) : Gw :=
  match g.getTx id with
  | some t => if t.done then g else runFinally (g.setTx { t with done := true, timer := none }) t
  | none => g

/-- the session ends with `cls` (first error wins, as in errgroup) -/
def fail (g : Gw) (cls : EndCls) : Gw :=
  match g.cancelledAt with
  | some _ => g
  | none => { g with cancelledAt := some g.now, endCls := cls }

def alive (g : Gw) : Bool := g.cancelledAt.isNone

/-- `handler1.snSend` -/
def snSend (g : Gw) (p : Pkt) (tx : Option Nat := none) : Gw :=
  if g.st = .asleep then { g with buffer := g.buffer ++ [{ pkt := p, tx := tx }] }
  else g.emit (.sn (encode p))

/-- `handler1.mqttSend` -/
def mqttSend (g : Gw) (p : MqPkt) : Gw := g.emit (.mq p)

/-- `flushPktBuffer` -/
def flushBuffer (g : Gw) : Gw :=
  let g' := g.buffer.foldl (fun acc it => acc.snSend it.pkt it.tx) { g with buffer := [] }
  -- snSend would queue again if the state were asleep; the code then sets pktBuffer = nil
  { g' with buffer := [] }

/-! ## topic IDs -/

def predefName (g : Gw) (id : UInt16) : Option Bytes := g.cfg.predef.getTopicName g.clientId id

/-- `newTopicID` (sticky exhaustion, skipping predefined IDs). Fuel: the loop ends at the
    latest when the sequence wraps. -/
def newTopicIdLoop (g : Gw) : Nat → UInt16 → IdSeq → Option UInt16 × IdSeq
  | 0, _, s => (none, s)
  | fuel + 1, id, s =>
    if (g.predefName id).isNone then (some id, s)
    else
      let ((id', ov), s') := s.step
      if ov then (none, s') else newTopicIdLoop g fuel id' s'

def newTopicId (g : Gw) : Option UInt16 × Gw :=
  if g.exhausted then (none, g)
  else
    let ((id, ov), s) := g.idseq.step
    if ov then (none, { g with idseq := s, exhausted := true })
    else
      match newTopicIdLoop g (g.idseq.max.toNat - g.idseq.min.toNat + 2) id s with
      | (some r, s') => (some r, { g with idseq := s' })
      | (none, s') => (none, { g with idseq := s', exhausted := true })

def storeRegId (g : Gw) (topic : Bytes) (id : UInt16) : Gw := { g with regIds := (topic, id) :: g.regIds }

/-- `registrationTopicID`: the ID under which the gateway registers a topic name with the client —
    the one it used before for this name, otherwise a new one -/
def registrationTopicId (g : Gw) (topic : Bytes) : Option UInt16 × Gw :=
  match g.regIds.lookup topic with
  | some id => (some id, g)
  | none =>
    match g.newTopicId with
    | (some id, g') => (some id, g'.storeRegId topic id)
    | (none, g') => (none, g')

/-- IDs under which `name` is registered (sync.Map.Range may return any of them) -/
def registeredIds (g : Gw) (name : Bytes) : List UInt16 :=
  ((g.registered.map (·.1)).eraseDups).filter fun id => g.registered.lookup id == some name

def findRegisteredId (g : Gw) (name : Bytes) : Option UInt16 := (g.registeredIds name).head?

def storeRegistered (g : Gw) (id : UInt16) (name : Bytes) : Gw :=
  { g with registered := (id, name) :: g.registered }

/-! ## transactions -/

def newTx (g : Gw) (kind : TxKind) (key : TxKey) (timer : Option Nat) : Nat × Gw :=
  let t : Tx := { id := g.nextTx, kind := kind, key := key, timer := timer }
  (g.nextTx, { g with txs := g.txs ++ [t], nextTx := g.nextTx + 1 })

def storeById (g : Gw) (mid : UInt16) (tx : Nat) : Gw := { g with byId := (mid, tx) :: g.byId }
def lookupById (g : Gw) (mid : UInt16) : Option Tx := (g.byId.lookup mid).bind g.getTx
def storeByIdB (g : Gw) (mid : UInt16) (tx : Nat) : Gw := { g with byIdB := (mid, tx) :: g.byIdB }
def lookupByIdB (g : Gw) (mid : UInt16) : Option Tx := (g.byIdB.lookup mid).bind g.getTx

/-- `RetryTransaction.Proceed(state, data)`: new state and data, retry counter reset, timer
    re-armed — unless the transaction is finished already (a finished transaction stays finished) -/
def armBp (g : Gw) (t : Tx) (q : UInt8) (st : BpSt) (data : BpData) (snp : Option Pkt) : Gw :=
  if t.done then g
  else g.setTx { t with kind := .brokerPub q st data snp 0, timer := some (g.now + g.cfg.retryDelay) }

/-- `Success()` when the new state is `transactionDone` -/
def finishIfDone (g : Gw) (id : Nat) (st : BpSt) : Gw := if st = .done then g.finishTx id else g

/-- `ProceedSN(newState, snPkt)` -/
def proceedSN (g : Gw) (id : Nat) (st : BpSt) (p : Pkt) : Gw :=
  match g.getTx id with
  | some t =>
    match t.kind with
    | .brokerPub q _ _ snp _ => (((g.armBp t q st (.sn p) snp).snSend p (some id)).finishIfDone id st)
    | _ => g
  | none => g

/-- `ProceedMQTT(newState, mqPkt)` -/
def proceedMQ (g : Gw) (id : Nat) (st : BpSt) (p : MqPkt) : Gw :=
  match g.getTx id with
  | some t =>
    match t.kind with
    | .brokerPub q _ _ snp _ => (((g.armBp t q st (.mq p) snp).mqttSend p).finishIfDone id st)
    | _ => g
  | none => g

def setDup : Pkt → Pkt
  | .publish _ q r tit t m d => .publish true q r tit t m d
  | .subscribe _ q tit m t n => .subscribe true q tit m t n
  | p => p

/-- `RetryTransaction.timeout` for a broker-publish transaction -/
def retryExpire (g : Gw) (t : Tx) : Gw :=
  match t.kind with
  | .brokerPub q st data snp n =>
    if t.done then g.setTx { t with timer := none }
    else if g.st = .asleep ∧ data.toClient then
      -- `SetSuspended(clientAsleep)`: while the client sleeps, a step that waits for the client neither
      -- retransmits (the packet waits in the buffer) nor counts the elapsed delays
      g.setTx { t with timer := some (g.now + g.cfg.retryDelay) }
    else if n + 1 > g.cfg.retryCount then
      g.finishTx t.id
    else
      match data with
      | .sn p =>
        let p' := setDup p
        -- the resend callback mutates the packet object: every queued reference sees it
        let g1 := { g with buffer := g.buffer.map (fun (b : BufItem) =>
          if b.tx == some t.id && b.pkt == p then { b with pkt := p' } else b) }
        let g2 := g1.setTx { t with kind := .brokerPub q st (.sn p') snp (n + 1),
                                    timer := some (g.now + g.cfg.retryDelay) }
        g2.snSend p' (some t.id)
      | .mq p =>
        let g2 := g.setTx { t with kind := .brokerPub q st data snp (n + 1),
                                   timer := some (g.now + g.cfg.retryDelay) }
        g2.mqttSend p
      | .none => g.finishTx t.id
  | _ => g

/-- a transaction timer fires -/
def txExpire (g : Gw) (t : Tx) : Gw :=
  match t.kind with
  | .connect .. =>
    -- Fail(ErrTimeout); the watcher goroutine turns it into "CONNECT: transaction timeout"
    if t.done then g.setTx { t with timer := none } else (g.finishTx t.id).fail .connectTimeout
  | .subscribe .. | .clientPub1 .. =>
    if t.done then g.setTx { t with timer := none } else g.finishTx t.id
  | .brokerPub .. => retryExpire g t

/-! ## the connect exchange -/

def sendConnack (g : Gw) (rc : UInt8) : Gw := g.snSend (.connack rc)

def connAuthenticated (g : Gw) (t : Tx) (f : ConnFields) : Gw :=
  if f.will then
    (g.setTx { t with kind := .connect .awaitingWillTopic f }).snSend .willtopicreq
  else
    (g.setTx { t with kind := .connect .awaitingConnack f }).mqttSend f.toPkt

/-- `bytes.Split(data, {0})` must give exactly three parts -/
def decodePlain (data : Bytes) : Option (Bytes × Bytes) :=
  match splitOn 0 data with
  | [_, u, p] => some (u, p)
  | _ => none

def plainMethod : Bytes := [0x50, 0x4C, 0x41, 0x49, 0x4E]   -- "PLAIN"

/-- the `mqConnect` packet `handleConnect` prepares -/
def mkConnFields (cfg : Cfg) (will clean : Bool) (dur : UInt16) (cid : Bytes) : ConnFields :=
  { cid := cid, clean := clean, ka := dur,
    uflag := cfg.user.isSome, user := cfg.user.getD [],
    pflag := cfg.pass.isSome, pass := cfg.pass.getD [], will := will }

/-- "Cancel previous transaction, if any." -/
def cancelOldConnect (g : Gw) : Gw :=
  match g.connectTx with
  | some old => g.finishTx old
  | none => g

/-- `transaction.Start(ctx)` -/
def startConnectTx (g : Gw) (id : Nat) (f : ConnFields) : Gw :=
  if g.cfg.auth then g
  else match g.getTx id with
    | some t => g.connAuthenticated t f
    | none => g

/-- create the connect transaction, store it by type, start it -/
def setConnectTx (g : Gw) (id : Nat) : Gw := { g with connectTx := some id }

def startConnect (g : Gw) (f : ConnFields) : Gw :=
  (((g.newTx (.connect .awaitingAuth f) .connectType (some (g.now + Gen.connectTransactionTimeout))).2.setConnectTx
        g.nextTx).startConnectTx g.nextTx f)

/-- `cancelSleepPinger`: the pinger of the sleep period that ends now (re-CONNECT, or a new DISCONNECT
    with a duration) is stopped -/
def cancelSleepPinger (g : Gw) : Gw := { g with pingers := [] }

def handleConnect (g : Gw) (will clean : Bool) (dur : UInt16) (cid : Bytes) : Gw :=
  if g.st = .awake ∨ g.st = .asleep then
    (({ g.cancelSleepPinger with st := .active }).snSend (.connack Gen.RC_ACCEPTED)).flushBuffer
  else if dur = 0 then g.snSend (.connack Gen.RC_NOT_SUPPORTED)
  else
    ((({ g with keepAlive := dur, clientId := cid } : Gw).cancelOldConnect).startConnect
      (mkConnFields g.cfg will clean dur cid))

def connAuth (g : Gw) (t : Tx) (st : ConnSt) (f : ConnFields) (method data : Bytes) : Gw :=
  if st ≠ .awaitingAuth then g
  else if method = plainMethod then
    match decodePlain data with
    | none => (g.finishTx t.id).fail .connectFailed
    | some (u, p) =>
      let f' := { f with uflag := true, user := u, pflag := true, pass := p }
      g.connAuthenticated t f'
  else
    ((g.sendConnack Gen.RC_NOT_SUPPORTED).finishTx t.id).fail .connectFailed

def connWillTopic (g : Gw) (t : Tx) (st : ConnSt) (f : ConnFields) (q : UInt8) (r : Bool) (topic : Bytes) : Gw :=
  if st ≠ .awaitingWillTopic then g
  else if q > 2 then (g.finishTx t.id).fail .connectFailed
  else
    let f' := if topic.isEmpty then { f with will := false } else { f with wq := q, wr := r, wt := topic }
    (g.setTx { t with kind := .connect .awaitingWillMsg f' }).snSend .willmsgreq

def connWillMsg (g : Gw) (t : Tx) (st : ConnSt) (f : ConnFields) (msg : Bytes) : Gw :=
  if st ≠ .awaitingWillMsg then g
  else
    let f' := if f.will then { f with wm := msg } else f
    (g.setTx { t with kind := .connect .awaitingConnack f' }).mqttSend f'.toPkt

def connConnack (g : Gw) (t : Tx) (st : ConnSt) (rc : UInt8) : Gw :=
  if st ≠ .awaitingConnack then g
  else if rc ≠ 0 then
    ((g.sendConnack Gen.RC_CONGESTION).finishTx t.id).fail .connectFailed
  else
    (({ g with st := .active }).sendConnack Gen.RC_ACCEPTED).finishTx t.id

/-- the stored connect transaction, if it is one -/
def connTx (g : Gw) : Option (Tx × ConnSt × ConnFields) :=
  match g.connectTx.bind g.getTx with
  | some t => match t.kind with
    | .connect st f => some (t, st, f)
    | _ => none
  | none => none

/-! ## client → broker -/

def hasWildcard (t : Bytes) : Bool := t.contains 0x2B || t.contains 0x23

/-- topic a client topic ID denotes for the gateway: `ok name` / unknown / invalid type -/
inductive TopicRes where
  | ok (name : Bytes) | unknown | invalidType
  deriving Repr, DecidableEq

def resolveTopic (g : Gw) (tit : UInt8) (id : UInt16) : TopicRes :=
  if tit = Gen.TIT_REGISTERED then
    match g.registered.lookup id with | some n => .ok n | none => .unknown
  else if tit = Gen.TIT_PREDEFINED then
    match g.predefName id with | some n => .ok n | none => .unknown
  else if tit = Gen.TIT_SHORT then .ok (decodeShortTopic id)
  else .invalidType

/-- QoS -1 becomes QoS 0 -/
def mqQos (qos : UInt8) : UInt8 := if qos = 3 then 0 else qos

/-- a client QoS-1 PUBLISH gets a transaction that remembers its topic ID (stored by message ID) -/
def storeClientPub1 (g : Gw) (qos : UInt8) (tid mid : UInt16) : Gw :=
  if qos = 1 then
    (g.newTx (.clientPub1 tid) (.byId mid) (some (g.now + g.cfg.retryDelay))).2.storeById mid g.nextTx
  else g

def handleClientPublish (g : Gw) (dup : Bool) (qos : UInt8) (retain : Bool) (tit : UInt8)
    (tid mid : UInt16) (data : Bytes) : Gw :=
  match g.resolveTopic tit tid with
  | .unknown => g.fail .unknownTopic
  | .invalidType => g.fail .badTopic
  | .ok topic =>
    if topic.isEmpty || hasWildcard topic then g.fail .badTopic
    else
      -- paho writes (and the broker reads) the message ID only for QoS > 0
      (g.storeClientPub1 qos tid mid).mqttSend
        (.publish dup (mqQos qos) retain (if mqQos qos = 0 then 0 else mid) topic data)

/-- forward a SUBSCRIBE with the resolved filter; the transaction (stored by message ID)
    remembers the topic ID for the SUBACK -/
def forwardSubscribe (g : Gw) (dup : Bool) (qos : UInt8) (mid : UInt16) (topic : Bytes) (topicId : UInt16) : Gw :=
  if topic.isEmpty then g.fail .badTopic
  else
    (((g.newTx (.subscribe topicId) (.byId mid) (some (g.now + g.cfg.retryDelay))).2.storeById mid g.nextTx).mqttSend
      (.subscribe mid dup topic qos))

def handleSubscribe (g : Gw) (dup : Bool) (qos tit : UInt8) (mid tid : UInt16) (name : Bytes) : Gw :=
  if qos > 2 then g.snSend (.suback 0 0 mid Gen.RC_NOT_SUPPORTED)
  else if tit = Gen.TIT_STRING then
    if !hasWildcard name then
      match g.findRegisteredId name with
      | some id => g.forwardSubscribe dup qos mid name id
      | none =>
        match g.newTopicId with
        | (some id, g') => (g'.storeRegistered id name).forwardSubscribe dup qos mid name id
        | (none, g') => g'.snSend (.suback 0 0 mid Gen.RC_INVALID_TOPIC_ID)
    else g.forwardSubscribe dup qos mid name 0
  else if tit = Gen.TIT_PREDEFINED then
    match g.predefName tid with
    | some n => g.forwardSubscribe dup qos mid n tid
    | none => g.fail .unknownTopic
  else if tit = Gen.TIT_SHORT then g.forwardSubscribe dup qos mid (decodeShortTopic tid) 0
  else g.forwardSubscribe dup qos mid [] 0

def forwardUnsubscribe (g : Gw) (mid : UInt16) (topic : Bytes) : Gw :=
  if topic.isEmpty then g.fail .badTopic else g.mqttSend (.unsubscribe mid topic)

def handleUnsubscribe (g : Gw) (tit : UInt8) (mid tid : UInt16) (name : Bytes) : Gw :=
  if tit = Gen.TIT_STRING then g.forwardUnsubscribe mid name
  else if tit = Gen.TIT_PREDEFINED then
    match g.predefName tid with
    | some n => g.forwardUnsubscribe mid n
    | none => g.fail .unknownTopic
  else if tit = Gen.TIT_SHORT then g.forwardUnsubscribe mid (decodeShortTopic tid)
  else g.forwardUnsubscribe mid []

def handleRegister (g : Gw) (mid : UInt16) (name : Bytes) : Gw :=
  if hasWildcard name then g.snSend (.regack 0 mid Gen.RC_NOT_SUPPORTED)
  else
    match g.findRegisteredId name with
    | some id => g.snSend (.regack id mid Gen.RC_ACCEPTED)
    | none =>
      match g.newTopicId with
      | (some id, g') => (g'.storeRegistered id name).snSend (.regack id mid Gen.RC_ACCEPTED)
      | (none, g') => g'.snSend (.regack 0 mid Gen.RC_INVALID_TOPIC_ID)

/-- `checkPacketLegal` -/
def packetLegal (g : Gw) (p : Pkt) : Bool :=
  if g.st ≠ .disconnected then true
  else match p with
    | .connect .. | .auth .. | .willmsg .. | .willtopic .. => true
    | .disconnect d => d == 0
    | .publish _ q _ tit _ _ _ =>
      !g.cfg.auth && q == 3 && (tit == Gen.TIT_SHORT || tit == Gen.TIT_PREDEFINED)
    | _ => false

def startSleepPinger (g : Gw) (dur : UInt16) : Gw :=
  let ka := g.keepAlive.toNat * 1000
  { g with pingers := g.pingers ++ [{ next := g.now + ka, cancelAt := g.now + dur.toNat * 1000, period := ka }] }

/-- `armSleepPinger`: the pinger of one sleep cycle (it replaces the previous cycle's), for every
    announced duration as long as the client has a keep-alive at all -/
def armSleepPinger (g : Gw) (dur : UInt16) : Gw :=
  if g.keepAlive = 0 then g.cancelSleepPinger else g.cancelSleepPinger.startSleepPinger dur

def isMqOut (o : Nat × Out) : Bool := match o.2 with | .mq _ => true | _ => false
/-- `lastBrokerWrite`: when the newest packet to the broker was written -/
def lastMqTime (g : Gw) : Option Nat := (g.outs.find? isMqOut).map (·.1)

/-- `pingBroker`: a PINGREQ on the gateway's own behalf (its PINGRESP is not passed on) -/
def pingBroker (g : Gw) : Gw := ({ g with ownPings := g.ownPings + 1 } : Gw).mqttSend .pingreq

/-- `keepBrokerAlive`, run after every client datagram that was handled without an error: the
    datagram proves the client alive, the gateway may have answered it itself — ping the broker if
    nothing has been written to it for half a keep-alive period -/
def keepBrokerAlive (g : Gw) : Gw :=
  if !g.alive ∨ g.keepAlive = 0 ∨ g.st = .disconnected then g
  else match g.lastMqTime with
    | some t => if (g.now - t) * 2 < g.keepAlive.toNat * 1000 then g else g.pingBroker
    | none => g.pingBroker

/-! ## broker → client -/

def bpRegack (g : Gw) (t : Tx) (q : UInt8) (st : BpSt) (data : BpData) (snp : Option Pkt) (rc : UInt8) : Gw :=
  if st ≠ .awaitingRegack then g
  else if rc ≠ Gen.RC_ACCEPTED then g.finishTx t.id
  else
    match data, snp with
    | .sn (.register tid _ name), some pub =>
      (g.storeRegistered tid name).proceedSN t.id
        (if q = 0 then .done else if q = 1 then .awaitingPuback else .awaitingPubrec) pub
    | _, _ => g

/-- the "almost surely available" message ID for a QoS-0 publish that needs a REGISTER -/
def freeMsgId (g : Gw) : Nat → Option UInt16
  | 0 => none
  | n + 1 =>
    let i := UInt16.ofNat (n + 1)
    if (g.byIdB.lookup i).isNone then some i else freeMsgId g n

/-- topic ID and type under which the client knows a broker topic name; `none` when the name
    needs a REGISTER first -/
def brokerTopicId (g : Gw) (topic : Bytes) : Option (UInt16 × UInt8) :=
  if isShortTopic topic then some (encodeShortTopic topic, Gen.TIT_SHORT)
  else match g.findRegisteredId topic with
    | some id => some (id, Gen.TIT_REGISTERED)
    | none => match (g.cfg.predef.getTopicIdSet g.clientId topic).head? with
      | some id => some (id, Gen.TIT_PREDEFINED)
      | none => none

/-- message ID of the REGISTER: the broker's one for QoS > 0, a free one for QoS 0 -/
def bpMsgId (g : Gw) (qos : UInt8) (mid : UInt16) : Option UInt16 :=
  if qos = 0 then g.freeMsgId Gen.MaxPacketID.toNat else some mid

/-- create a broker-publish transaction, store it by message ID and send its first packet -/
def startBrokerPub (g : Gw) (qos : UInt8) (msgId : UInt16) (st0 : BpSt) (snp : Option Pkt) (st : BpSt)
    (first : Pkt) : Gw :=
  (((g.newTx (.brokerPub qos st0 .none snp 0) (.byIdB msgId) none).2.storeByIdB msgId g.nextTx).proceedSN
    g.nextTx st first)

def handleBrokerPublish (g : Gw) (dup : Bool) (qos : UInt8) (retain : Bool) (mid : UInt16)
    (topic payload : Bytes) : Gw :=
  if payload.length > Gen.MaxPayloadLength ∨ topic.length > Gen.MaxPayloadLength then g
  else if topic.isEmpty then g
  else
    match g.brokerTopicId topic with
    | some (tid, tit) =>
      if qos = 0 then g.snSend (.publish dup qos retain tit tid mid payload)
      else if qos > 2 then g.fail .error
      else g.startBrokerPub qos mid .done none (if qos = 1 then .awaitingPuback else .awaitingPubrec)
        (.publish dup qos retain tit tid mid payload)
    | none =>
      match g.bpMsgId qos mid with
      | none => g.fail .error
      | some msgId =>
        if qos > 2 then g.fail .error
        else
          match g.registrationTopicId topic with
          | (none, g') => g'.fail .error
          | (some newId, g') =>
            g'.startBrokerPub qos msgId .awaitingRegack (some (.publish dup qos retain 0 newId mid payload))
              .awaitingRegack (.register newId msgId topic)

/-! ## dispatch -/

def setSt (g : Gw) (st : CState) : Gw := { g with st := st }
def clearBuffer (g : Gw) : Gw := { g with buffer := [] }

/-- PINGREQ: a sleeping client wakes up, gets its buffered packets and PINGRESP, and is asleep
    again; otherwise the ping goes to the broker -/
def handlePingreq (g : Gw) : Gw :=
  if g.st = .asleep then
    -- the announced duration applies to the sleep cycle that begins now, too
    (((((g.setSt .awake).flushBuffer).snSend .pingresp).setSt .asleep).armSleepPinger g.sleepDur)
  else g.mqttSend .pingreq

/-- the plain DISCONNECT, forwarded to the broker -/
def handlePlainDisconnect (g : Gw) : Gw :=
  ((((g.mqttSend .disconnect).setSt .disconnected).snSend (.disconnect 0)).fail .clean)

/-- `snSendNow`: written to the client whatever its state -/
def snSendNow (g : Gw) (p : Pkt) : Gw := g.emit (.sn (encode p))

/-- a client that is asleep already repeats its DISCONNECT when the reply got lost: what has
    been queued for it in the meantime is kept -/
def clearBufferUnlessAsleep (g : Gw) : Gw := if g.st ≠ .asleep then g.clearBuffer else g

/-- DISCONNECT with a duration: the client goes to sleep; the reply is never queued -/
def handleSleep (g : Gw) (d : UInt16) : Gw :=
  (((((({ g with sleepDur := d } : Gw).armSleepPinger d).clearBufferUnlessAsleep).snSendNow (.disconnect 0)).setSt .asleep))

def handleDisconnect (g : Gw) (d : UInt16) : Gw :=
  if d = 0 then g.handlePlainDisconnect else g.handleSleep d

/-- `handleMqttSn` for a decoded packet -/
def handleSn (g : Gw) (p : Pkt) : Gw :=
  if !g.packetLegal p then g.fail .illegal
  else match p with
  | .connect w c _ d cid => g.handleConnect w c d cid
  | .auth _ m d =>
    match g.connTx with
    | some (t, st, f) => g.connAuth t st f m d
    | none => g
  | .willtopic q r t =>
    match g.connTx with
    | some (tx, st, f) => g.connWillTopic tx st f q r t
    | none => g
  | .willmsg m =>
    match g.connTx with
    | some (tx, st, f) => g.connWillMsg tx st f m
    | none => g
  | .register _ mid name => g.handleRegister mid name
  | .publish dup q r tit tid mid data => g.handleClientPublish dup q r tit tid mid data
  | .pubrel mid => g.mqttSend (.pubrel mid)
  | .subscribe dup q tit mid tid name => g.handleSubscribe dup q tit mid tid name
  | .unsubscribe tit mid tid name => g.handleUnsubscribe tit mid tid name
  | .pingreq _ => g.handlePingreq
  | .disconnect d => g.handleDisconnect d
  | .regack _ mid rc =>
    match g.lookupByIdB mid with
    | some t => match t.kind with
      | .brokerPub q st data snp _ => g.bpRegack t q st data snp rc
      | _ => g
    | none => g
  | .puback _ mid rc =>
    match g.lookupByIdB mid with
    | some t => match t.kind with
      | .brokerPub 1 st _ _ _ =>
        if st ≠ .awaitingPuback then g
        else if rc ≠ Gen.RC_ACCEPTED then g.finishTx t.id
        else g.proceedMQ t.id .done (.puback mid)
      | _ => g
    | none => g
  | .pubrec mid =>
    match g.lookupByIdB mid with
    | some t => match t.kind with
      | .brokerPub 2 st _ _ _ =>
        if st ≠ .awaitingPubrec then g else g.proceedMQ t.id .awaitingPubrel (.pubrec mid)
      | _ => g
    | none => g
  | .pubcomp mid =>
    match g.lookupByIdB mid with
    | some t => match t.kind with
      | .brokerPub 2 st _ _ _ =>
        if st ≠ .awaitingPubcomp then g else g.proceedMQ t.id .done (.pubcomp mid)
      | _ => g
    | none => g
  | _ => g.fail .unsupportedSn

/-- `handleMqtt` -/
def handleMq (g : Gw) (p : MqPkt) : Gw :=
  match p with
  | .connack rc =>
    match g.connTx with
    | some (t, st, _) => g.connConnack t st rc
    | none => g
  | .puback mid =>
    match g.lookupById mid with
    | some t => match t.kind with
      | .clientPub1 tid => (g.finishTx t.id).snSend (.puback tid mid Gen.RC_ACCEPTED)
      | _ => g
    | none => g
  | .pubrec mid => g.snSend (.pubrec mid)
  | .pubcomp mid => g.snSend (.pubcomp mid)
  | .suback mid _ codes =>
    match g.lookupById mid with
    | some t => match t.kind with
      | .subscribe tid =>
        match codes with
        | [c] =>
          if c ≤ 2 then (g.finishTx t.id).snSend (.suback c tid mid Gen.RC_ACCEPTED)
          else (g.finishTx t.id).snSend (.suback 0 tid mid Gen.RC_NOT_SUPPORTED)
        | _ => (g.finishTx t.id).fail .error
      | _ => g
    | none => g
  | .unsuback mid => g.snSend (.unsuback mid)
  | .pingresp =>
    if g.ownPings > 0 then { g with ownPings := g.ownPings - 1 }   -- the answer to a ping of the gateway itself
    else if g.st ≠ .active then g else g.snSend .pingresp
  | .publish dup q r mid topic payload => g.handleBrokerPublish dup q r mid topic payload
  | .pubrel mid =>
    match g.lookupByIdB mid with
    | some t => match t.kind with
      | .brokerPub 2 st _ _ _ =>
        if st ≠ .awaitingPubrel then g else g.proceedSN t.id .awaitingPubcomp (.pubrel mid)
      | _ => g
    | none => g
  | _ => g.fail .unsupportedMq

/-! ## time -/

inductive Due where
  | tx (id : Nat) (at_ : Nat)
  | ping (idx : Nat) (at_ : Nat)
  | pingCancel (idx : Nat) (at_ : Nat)
  deriving Repr

def Due.time : Due → Nat
  | .tx _ t | .ping _ t | .pingCancel _ t => t

/-- what a sleep pinger has pending at or before `t`: its cancellation (the end of the announced
    sleep), and a tick — only while it has not been cancelled -/
def pingerDue (p : Pinger) (i t : Nat) : List Due :=
  (if p.cancelAt ≤ t then [Due.pingCancel i p.cancelAt] else []) ++
  (if p.next ≤ t ∧ p.next < p.cancelAt then [Due.ping i p.next] else [])

/-- the earliest pending timer, if any is due at or before `t` (ties: transactions in creation
    order first, then pingers) -/
def nextDue (g : Gw) (t : Nat) : Option Due :=
  let txDue := g.txs.filterMap fun x => match x.timer with
    | some d => if d ≤ t then some (Due.tx x.id d) else none
    | none => none
  let pingDue := (g.pingers.zipIdx).flatMap fun (p, i) => pingerDue p i t
  (txDue ++ pingDue).foldl (fun best d => match best with
    | none => some d
    | some b => if d.time < b.time then some d else some b) none

def setNow (g : Gw) (t : Nat) : Gw := { g with now := t }

def fireTx (g : Gw) (id : Nat) : Gw :=
  match g.getTx id with
  | some t => g.txExpire t
  | none => g

/-- a sleep pinger's ticker: next tick one period later, PINGREQ to the broker -/
def firePing (g : Gw) (i : Nat) : Gw :=
  ({ g with pingers := g.pingers.mapIdx (fun j (p : Pinger) =>
      if j = i then { p with next := p.next + p.period } else p) } : Gw).pingBroker

def dropPinger (g : Gw) (i : Nat) : Gw := { g with pingers := g.pingers.eraseIdx i }

def fireDue (g : Gw) (d : Due) : Gw :=
  match d with
  | .tx id _ => (g.setNow d.time).fireTx id
  | .ping i _ => (g.setNow d.time).firePing i
  | .pingCancel i _ => (g.setNow d.time).dropPinger i

/-- the shutdown goroutine: DISCONNECT to an active or awake client -/
def shutdownDisconnect (g : Gw) : Gw :=
  if g.st = .active ∨ g.st = .awake then g.emit (.sn (encode (.disconnect 0))) else g

/-- all timers stop with the session -/
def stopTimers (g : Gw) : Gw :=
  { g with endedEmitted := true, txs := g.txs.map fun t => { t with timer := none }, pingers := [] }

def emitEnd (g : Gw) : Gw := (g.emit (.ended g.endCls)).emit .mqClose

/-- session end: emitted once, when the context has been cancelled -/
def finishSession (g : Gw) : Gw :=
  match g.cancelledAt with
  | some tc =>
    if g.endedEmitted then g
    else ((((g.setNow tc).shutdownDisconnect).emitEnd).stopTimers)
  | none => g

/-- advance the clock to `t`, firing every timer due on the way (fuel bounds the number of firings) -/
def advance : Nat → Gw → Nat → Gw
  | 0, g, t => g.setNow (max g.now t)
  | fuel + 1, g, t =>
    if !g.alive then g.finishSession.setNow (max g.now t)
    else match g.nextDue t with
      | some d => advance fuel (g.fireDue d).finishSession t
      | none => g.setNow (max g.now t)

/-- external events -/
inductive Event where
  | sn (bytes : Bytes)
  | mq (p : MqPkt)
  | mqGarbage
  | mqEof
  | shutdown
  | tick
  deriving Repr

/-- live bindings of the registry, sorted by ID -/
def liveRegistry (g : Gw) : List (UInt16 × Bytes) :=
  let ids := (g.registered.map (·.1)).eraseDups
  let live := ids.filterMap fun id => (g.registered.lookup id).map fun n => (id, n)
  (live.toArray.qsort (fun a b => a.1 < b.1)).toList

def bufferBytes (g : Gw) : List Bytes := g.buffer.map fun it => encode it.pkt

def sampleState (g : Gw) : Gw :=
  if g.st ≠ g.sampledState then ({ g with sampledState := g.st } : Gw).emit (.state g.st) else g
def sampleReg (g : Gw) : Gw :=
  if g.liveRegistry ≠ g.sampledReg then ({ g with sampledReg := g.liveRegistry } : Gw).emit (.reg g.liveRegistry) else g
def sampleBuf (g : Gw) : Gw :=
  if g.bufferBytes ≠ g.sampledBuf then ({ g with sampledBuf := g.bufferBytes } : Gw).emit (.buf g.bufferBytes) else g

/-- the harness samples state and registry after every scripted event and reports changes -/
def sample (g : Gw) : Gw := g.sampleState.sampleReg.sampleBuf

/-- the handler's reaction to one external event -/
def handleEvent (g : Gw) (ev : Event) : Gw :=
  match ev with
  | .sn bytes =>
    match decode (bytes.take Gen.MaxPacketLen) with
    | .ok (_, p) => (g.handleSn p).keepBrokerAlive
    | _ => g.fail .snDecode
  | .mq p => g.handleMq p
  | .mqGarbage => g.fail .mqDecode
  | .mqEof => if g.st = .disconnected then g.fail .clean else g.fail .mqttClosed
  | .shutdown => g.fail .clean
  | .tick => g

/-- an event reaches a live session; zero-delay timers armed by the handler fire at the same instant -/
def deliver (g : Gw) (t : Nat) (ev : Event) : Gw :=
  if !g.alive then g.finishSession
  else (advance 100000 (g.handleEvent ev) t).finishSession

/-- one event at time `t` (without the instrumentation) -/
def stepCore (g : Gw) (t : Nat) (ev : Event) : Gw := (advance 100000 g t).deliver t ev

def step (g : Gw) (t : Nat) (ev : Event) : Gw := (g.stepCore t ev).sample

def run (g : Gw) (evs : List (Nat × Event)) : Gw := evs.foldl (fun g (t, e) => g.step t e) g

end Gw
end Bisquitt.Gw
