/-
  L1 pure: topics/predefined_topics.go.
  A Go `map[string]map[uint16]string` is modelled as an association list in which the
  *first* binding of a key is the live one (`add` puts the new binding in front, so
  "last write wins" exactly as a Go map assignment).
-/
import Bisquitt.Model.Bytes

namespace Bisquitt

abbrev TopicMap := List (UInt16 × Bytes)
abbrev Predef := List (Bytes × TopicMap)

/-- the client ID `"*"` -/
def starId : Bytes := [0x2A]

namespace Predef

/-- `t[clientID][topicID] = topicName` (creating the inner map if needed) -/
def add (t : Predef) (c : Bytes) (name : Bytes) (id : UInt16) : Predef :=
  match t.lookup c with
  | some m => (c, (id, name) :: m) :: t
  | none => (c, [(id, name)]) :: t

/-- `PredefinedTopics.GetTopicName` -/
def getTopicName (t : Predef) (c : Bytes) (id : UInt16) : Option Bytes :=
  match (t.lookup c).bind (·.lookup id) with
  | some n => some n
  | none => (t.lookup starId).bind (·.lookup id)

/-- live keys of an inner map -/
def liveIds (m : TopicMap) : List UInt16 := (m.map (·.1)).eraseDups

/-- the IDs whose live binding in `m` is `name` -/
def idsWithName (m : TopicMap) (name : Bytes) : List UInt16 :=
  (liveIds m).filter (fun id => m.lookup id == some name)

/-- `PredefinedTopics.GetTopicID`: Go map iteration order is unspecified, so the model returns
    the *set* of admissible answers (empty = not found).  The client's own map is searched
    first; the `"*"` map is searched only if the client's map has no match, and `"*"` entries
    whose ID is shadowed by a client-specific entry are skipped. -/
def getTopicIdSet (t : Predef) (c : Bytes) (name : Bytes) : List UInt16 :=
  let own := match t.lookup c with
    | some m => idsWithName m name
    | none => []
  if own ≠ [] then own
  else match t.lookup starId with
    | some all =>
      (idsWithName all name).filter (fun id =>
        match t.lookup c with
        | some m => (m.lookup id).isNone
        | none => true)
    | none => []

/-- inner loop of `Merge`: every live entry of `m` is stored under client `c` -/
def mergeIds (m : TopicMap) (c : Bytes) (ids : List UInt16) (acc : Predef) : Predef :=
  ids.foldl (fun acc id =>
    match m.lookup id with
    | some n => acc.add c n id
    | none => acc) acc

/-- `t[clientID]` exists afterwards (possibly empty) -/
def ensureClient (acc : Predef) (c : Bytes) : Predef :=
  match acc.lookup c with
  | some _ => acc
  | none => (c, []) :: acc

/-- one client of `src` merged in -/
def mergeClient (src : Predef) (acc : Predef) (c : Bytes) : Predef :=
  match src.lookup c with
  | some m => mergeIds m c (liveIds m) (ensureClient acc c)
  | none => acc

/-- `PredefinedTopics.Merge`: entries of `src` override, client by client, entry by entry
    (iterating over the live bindings of src) -/
def merge (t src : Predef) : Predef :=
  ((src.map (·.1)).eraseDups).foldl (mergeClient src) t

end Predef

/-! ### option parsing (`ParsePredefinedTopicOptions`) -/

/-- `strings.Split(line, ";")` -/
def splitOn (sep : UInt8) : Bytes → List Bytes
  | [] => [[]]
  | b :: rest =>
    if b = sep then [] :: splitOn sep rest
    else match splitOn sep rest with
      | [] => [[b]]
      | f :: fs => (b :: f) :: fs

/-- `strconv.ParseUint(s, 10, 16)`: non-empty, decimal digits only, value ≤ 65535 -/
def parseUint16 (s : Bytes) : Option UInt16 :=
  if s.isEmpty then none
  else if s.all (fun b => 0x30 ≤ b && b ≤ 0x39) then
    let v := s.foldl (fun acc b => acc * 10 + (b.toNat - 0x30)) 0
    if v ≤ 65535 then some (UInt16.ofNat v) else none
  else none

/-- one option line: `topic;id` (client `*`) or `client;topic;id` -/
def parseOption (line : Bytes) : Option (Bytes × Bytes × UInt16) :=
  match splitOn 0x3B line with
  | [name, idS] => (parseUint16 idS).map fun id => (starId, name, id)
  | [c, name, idS] => (parseUint16 idS).map fun id => (c, name, id)
  | _ => none

/-- `ParsePredefinedTopicOptions(options...)`: `none` = error -/
def optStep (acc : Predef) (line : Bytes) : Option Predef :=
  match parseOption line with
  | some (c, n, id) => some (acc.add c n id)
  | none => none

def parseOptions (opts : List Bytes) : Option Predef := opts.foldlM optStep []

end Bisquitt
