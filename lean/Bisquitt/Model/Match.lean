/-
  L1 pure: client/message_handlers.go `split` and `match`.
-/
import Bisquitt.Model.Topics

namespace Bisquitt

def hashLevel : Bytes := [0x23]   -- "#"
def plusLevel : Bytes := [0x2B]   -- "+"

/-- `split(topic)` = `strings.Split(topic, "/")` -/
def splitTopic (s : Bytes) : List Bytes := splitOn 0x2F s

/-- `match(route, topic)` -/
def matchRoute : List Bytes → List Bytes → Bool
  | [], topic => topic.isEmpty
  | r :: _, [] => r == hashLevel
  | r :: rs, t :: ts =>
    if r == hashLevel then true
    else if r == plusLevel || r == t then matchRoute rs ts
    else false

end Bisquitt
