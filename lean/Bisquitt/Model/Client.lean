/-
  L3: the client library — client/client.go, client/net.go and the client/*_transaction.go files
  as a timed, event-driven state machine.  Events: an API call started by the application, a
  datagram from the gateway, and the passage of time (retry / timeout / sleep / keep-alive timers
  fire in deadline order).  A blocking API call is modelled by its synchronous prefix plus a
  "waiter" that returns when its transaction finishes or the client's goroutine group ends.
  Outputs: datagrams to the gateway, returns of API calls, handler invocations, `done`.
-/
import Bisquitt.Model.Wire
import Bisquitt.Model.Topics
import Bisquitt.Model.IdSeq
import Bisquitt.Model.Match

namespace Bisquitt.Cl
open Bisquitt

inductive CState where
  | disconnected | active | asleep | awake
  deriving Repr, DecidableEq

/-- error classes of API results / of the end of the client -/
inductive Err where
  | ok | timeout | noMoreRetries | connectTimeout | rejected | notRegistered | badState | invalidQos
  | pingrespTimeout | closed | badTopicId | unhandledPacket | badQos | decode | keepaliveStopped | terminated
  deriving Repr, DecidableEq

structure Cfg where
  cid : Bytes
  user : Option Bytes           -- `User != ""`
  pass : Bytes
  ka : Nat                      -- seconds; 0 = no keep-alive goroutine
  ct : Nat                      -- ConnectTimeout, ms
  rd : Nat                      -- RetryDelay, ms
  rc : Nat                      -- RetryCount
  clean : Bool
  will : Option (Bytes × Bytes × UInt8 × Bool)   -- topic, message, QoS, retain (topic ≠ "")
  predef : Predef
  deriving Repr

inductive Out where
  | sn (bytes : Bytes)
  | ret (call : String) (e : Err)
  /-- the call's transaction finished when the group was already cancelled: Go's `select` may take
      either branch (the transaction's result, or the group's) -/
  | retEither (call : String) (e1 e2 : Err)
  /-- a subscription callback was started: the filters whose callback it may be (Go map order) -/
  | handler (filters : List Bytes) (topic : Bytes) (qos : UInt8) (retain : Bool) (payload : Bytes)
  | state (s : CState)
  | done (e : Err)
  deriving Repr, DecidableEq

inductive P2St where
  | awaitingPubrec | awaitingPubcomp
  deriving Repr, DecidableEq

/-- `sleepTransaction.state` (zero value: nothing awaited) -/
inductive SleepSt where
  | idle | awaitingDisconnect | awaitingPingresp
  deriving Repr, DecidableEq

inductive TxKind where
  | connect
  | register (name : Bytes)
  | subscribe (label : Bytes)         -- the callback is identified by the filter it was registered with
  | unsubscribe
  | pub1
  | pub2 (st : P2St)
  | ping (keepalive : Bool)
  | disconnect
  | sleep (st : SleepSt) (dur : Nat) (resendNum : Nat)
  | brokerPub2 (publish : Pkt)
  deriving Repr, DecidableEq

inductive Key where
  | byId (mid : UInt16) | byIdB (mid : UInt16) | connect | ping | disconnect
  deriving Repr, DecidableEq

/-- what the live timer of a transaction does when it fires -/
inductive TimerKind where
  | retry | timed | sleepResend | sleepWake | pingrespWait
  deriving Repr, DecidableEq

structure Tx where
  id : Nat
  kind : TxKind
  key : Key
  done : Bool := false
  err : Err := .ok
  data : Option Pkt := none            -- `RetryTransaction.Data`: the packet to resend
  retryNum : Nat := 0
  timer : Option (Nat × TimerKind) := none
  deriving Repr, DecidableEq

inductive WaitKind where
  | plain | connect (attempt : Nat) | disconnect (close : Bool)
  deriving Repr, DecidableEq

structure Wait where
  call : String
  tx : Nat
  kind : WaitKind
  /-- the call saw the group cancelled while its exchange was unfinished: it now waits for the
      group to end (`waitTerminated`), whatever happens to the exchange -/
  committed : Bool := false
  deriving Repr, DecidableEq

structure Cl where
  cfg : Cfg
  now : Nat := 0
  st : CState := .disconnected
  registered : List (Bytes × UInt16) := []      -- name ↦ ID (first binding live)
  handlers : List (Bytes × Bytes) := []         -- filter string ↦ callback label (first binding live)
  msgId : IdSeq := IdSeq.new Gen.MinPacketID Gen.MaxPacketID
  txs : List Tx := []
  nextTx : Nat := 0
  byId : List (UInt16 × Nat) := []
  byIdB : List (UInt16 × Nat) := []
  slotConnect : Option Nat := none
  slotPing : Option Nat := none
  slotDisconnect : Option Nat := none
  waits : List Wait := []
  cancelledAt : Option Nat := none               -- groupCtx cancelled
  groupErr : Err := .ok
  connClosed : Bool := false
  readDeadline : Nat := 1000                     -- next time the receive loop looks at its context
  rxAlive : Bool := true
  doneEmitted : Bool := false
  kaTick : Option Nat := none                    -- next tick of the keep-alive ticker
  kaPinging : Bool := false
  kaMissed : Bool := false                       -- a tick came while the keep-alive ping was outstanding
  kaAlive : Bool := true
  outs : List (Nat × Out) := []
  sampledState : CState := .disconnected
  deriving Repr

namespace Cl

def emit (c : Cl) (o : Out) : Cl := { c with outs := (c.now, o) :: c.outs }

def alive (c : Cl) : Bool := c.cancelledAt.isNone

/-- `Client.send`: the write fails once the connection is closed -/
def send (c : Cl) (p : Pkt) : Cl × Bool :=
  if c.connClosed then (c, false) else (c.emit (.sn (encode p)), true)

def getTx (c : Cl) (id : Nat) : Option Tx := c.txs.find? (·.id == id)
def setTx (c : Cl) (t : Tx) : Cl := { c with txs := c.txs.map fun x => if x.id == t.id then t else x }

def newTx (c : Cl) (kind : TxKind) (key : Key) : Nat × Cl :=
  (c.nextTx, { c with txs := c.txs ++ [{ id := c.nextTx, kind := kind, key := key }], nextTx := c.nextTx + 1 })

def store (c : Cl) (key : Key) (id : Nat) : Cl :=
  match key with
  | .byId m => { c with byId := (m, id) :: c.byId }
  | .byIdB m => { c with byIdB := (m, id) :: c.byIdB }
  | .connect => { c with slotConnect := some id }
  | .ping => { c with slotPing := some id }
  | .disconnect => { c with slotDisconnect := some id }

/-- the `finally` callbacks -/
def runFinally (c : Cl) (t : Tx) : Cl :=
  match t.key with
  | .byId m => { c with byId := c.byId.filter (·.1 != m) }
  | .byIdB m => if c.byIdB.lookup m = some t.id then { c with byIdB := c.byIdB.filter (·.1 != m) } else c
  | .connect => { c with slotConnect := none }
  | .ping => { c with slotPing := none }
  | .disconnect => { c with slotDisconnect := none }

/-- the keep-alive goroutine learns about a state change (never blocking the caller) -/
def notifyState (c : Cl) (s : CState) : Cl :=
  if c.cfg.ka = 0 ∨ !c.kaAlive ∨ !c.alive then c
  else if s = .active then { c with kaTick := some (c.now + c.cfg.ka * 1000) }
  else { c with kaTick := none }

/-- `Success()` / `Fail(e)` -/
def finishTx (c : Cl) (id : Nat) (e : Err) : Cl :=
  match c.getTx id with
  | some t => if t.done then c else runFinally (c.setTx { t with done := true, err := e, timer := none }) t
  | none => c

/-- `setState` + the keep-alive goroutine's reaction: outside `active` the keep-alive ping in
    progress is stopped (no retransmissions) -/
def setState (c : Cl) (s : CState) : Cl :=
  if c.st = s then c
  else
    let c := { c with st := s }
    let c := c.notifyState s
    if s ≠ .active ∧ c.cfg.ka ≠ 0 ∧ c.kaAlive ∧ c.alive then
      match c.slotPing.bind c.getTx with
      | some t => (match t.kind with
        | .ping true => c.finishTx t.id .keepaliveStopped
        | _ => c)
      | none => c
    else c

/-- the group context is cancelled: every retry / timed timer stops (sleep timers do not) -/
def cancelGroup (c : Cl) (e : Err) : Cl :=
  match c.cancelledAt with
  | some _ => c
  | none =>
    { c with cancelledAt := some c.now, groupErr := e, kaTick := none,
             txs := c.txs.map fun t => match t.timer with
               | some (_, .retry) | some (_, .timed) => { t with timer := none }
               | _ => t }

/-- `RetryTransaction.Proceed(state, data)` for a fresh or progressing transaction -/
def proceed (c : Cl) (id : Nat) (kind : TxKind) (data : Pkt) : Cl :=
  match c.getTx id with
  | some t =>
    if t.done then c
    else c.setTx { t with kind := kind, data := some data, retryNum := 0,
                          -- a transaction created after the group was cancelled has its timer stopped by its
                          -- watcher goroutine; progress of an older one re-arms the timer regardless
                          timer := if c.alive ∨ t.data.isSome then some (c.now + c.cfg.rd, .retry) else none }
  | none => c

/-- start of a message-ID exchange: transaction stored, armed, first packet sent; a failing send
    fails the transaction -/
def startExchange (c : Cl) (call : String) (kind : TxKind) (key : Key) (p : Pkt) (proceedFirst : Bool) : Cl :=
  let (id, c) := c.newTx kind key
  let c := if proceedFirst then (c.proceed id kind p).store key id else (c.store key id).proceed id kind p
  let (c, ok) := c.send p
  let c := if ok then c else c.finishTx id .closed
  { c with waits := c.waits ++ [{ call := call, tx := id, kind := .plain }] }

def nextMsgId (c : Cl) : UInt16 × Cl :=
  let ((id, _), s) := c.msgId.step
  (id, { c with msgId := s })

/-! ## API calls -/

def connectPkt (c : Cl) : Pkt := .connect c.cfg.will.isSome c.cfg.clean 1 (UInt16.ofNat c.cfg.ka) c.cfg.cid

def plainAuth (user pass : Bytes) : Pkt := .auth 0 [0x50, 0x4C, 0x41, 0x49, 0x4E] ([0] ++ user ++ [0] ++ pass)

/-- the CONNECT transaction's own timer (`NewTimedTransaction(ctx, ConnectTimeout, …)`) -/
def armConnectTimer (c : Cl) (id : Nat) : Cl :=
  match c.getTx id with
  | some t => c.setTx { t with timer := if c.alive then some (c.now + c.cfg.ct, .timed) else none }
  | none => c

/-- CONNECT, then AUTH PLAIN right behind it when a user is configured; the call then waits -/
def sendConnect (c : Cl) (call : String) (id i : Nat) : Cl :=
  if c.connClosed then c.emit (.ret call .closed)
  else
    let c := c.emit (.sn (encode c.connectPkt))
    let c := match c.cfg.user with
      | some u => c.emit (.sn (encode (plainAuth u c.cfg.pass)))
      | none => c
    { c with waits := c.waits ++ [{ call := call, tx := id, kind := .connect i }] }

/-- one iteration of `Connect()`'s loop -/
def connectAttempt (c : Cl) (call : String) (i : Nat) : Cl :=
  ((((c.newTx .connect .connect).2.store .connect c.nextTx).armConnectTimer c.nextTx).sendConnect call c.nextTx i)

def apiRegister (c : Cl) (call : String) (name : Bytes) : Cl :=
  let (mid, c) := c.nextMsgId
  c.startExchange call (.register name) (.byId mid) (.register 0 mid name) false

def apiSubscribe (c : Cl) (call : String) (label name : Bytes) (tit : UInt8) (tid : UInt16) (qos : UInt8) : Cl :=
  let (mid, c) := c.nextMsgId
  c.startExchange call (.subscribe label) (.byId mid) (.subscribe false qos tit mid tid name) false

def apiUnsubscribe (c : Cl) (call : String) (name : Bytes) (tit : UInt8) (tid : UInt16) : Cl :=
  let (mid, c) := c.nextMsgId
  c.startExchange call .unsubscribe (.byId mid) (.unsubscribe tit mid tid name) false

def apiPublishRaw (c : Cl) (call : String) (tit : UInt8) (tid : UInt16) (qos : UInt8) (retain : Bool) (payload : Bytes) : Cl :=
  let (mid, c) := c.nextMsgId
  let p : Pkt := .publish false qos retain tit tid mid payload
  if qos = 0 ∨ qos = 3 then
    let (c, ok) := c.send p
    c.emit (.ret call (if ok then .ok else .closed))
  else if qos = 1 then c.startExchange call .pub1 (.byId mid) p true
  else if qos = 2 then c.startExchange call (.pub2 .awaitingPubrec) (.byId mid) p true
  else c.emit (.ret call .invalidQos)

def apiPublish (c : Cl) (call : String) (topic : Bytes) (qos : UInt8) (retain : Bool) (payload : Bytes) : Cl :=
  if isShortTopic topic then c.apiPublishRaw call Gen.TIT_SHORT (encodeShortTopic topic) qos retain payload
  else match c.registered.lookup topic with
    | some id => c.apiPublishRaw call Gen.TIT_REGISTERED id qos retain payload
    | none => c.emit (.ret call .notRegistered)

/-- the PINGREQ exchange in progress, if any (`GetByType(PINGREQ)`: a finished one has left the slot) -/
def pingInProgress (c : Cl) : Option Tx :=
  match c.slotPing.bind c.getTx with
  | some t => (match t.kind with
    | .ping _ => if t.done then none else some t
    | _ => none)
  | none => none

/-- a new PINGREQ exchange -/
def startPing (c : Cl) (call : String) (keepalive : Bool) : Cl :=
  let (id, c) := c.newTx (.ping keepalive) .ping
  let c := (c.store .ping id).proceed id (.ping keepalive) (.pingreq [])
  let (c, ok) := c.send (.pingreq [])
  let c := if ok then c else c.finishTx id .closed
  { c with waits := c.waits ++ [{ call := call, tx := id, kind := .plain }] }

/-- a ping requested while another one waits for its PINGRESP sends its PINGREQ and joins that exchange;
    when it is the application that joins, the exchange is no longer the keep-alive's to stop -/
def joinPing (c : Cl) (call : String) (keepalive : Bool) (t : Tx) : Cl :=
  let c := if keepalive then c else c.setTx { t with kind := .ping false }
  let (c, ok) := c.send (.pingreq [])
  let c := if ok then c else c.finishTx t.id .closed
  { c with waits := c.waits ++ [{ call := call, tx := t.id, kind := .plain }] }

def apiPing (c : Cl) (call : String) (keepalive : Bool) : Cl :=
  match c.pingInProgress with
  | some t => c.joinPing call keepalive t
  | none => c.startPing call keepalive

/-- `startSleep`: the transaction's own state is left as it is -/
def startSleep (c : Cl) (id : Nat) : Cl :=
  let c := c.setState .asleep
  match c.getTx id with
  | some t => (match t.kind with
    | .sleep _ dur _ => c.setTx { t with timer := some (c.now + dur * 1000, .sleepWake) }
    | _ => c)
  | none => c

def apiSleep (c : Cl) (call : String) (dur : Nat) : Cl :=
  let (id, c) := c.newTx (.sleep .idle dur 0) .disconnect
  let c := c.store .disconnect id
  if c.st = .active then
    let p : Pkt := .disconnect (UInt16.ofNat dur)
    let c := match c.getTx id with
      | some t => c.setTx { t with kind := .sleep .awaitingDisconnect dur 0, data := some p }
      | none => c
    let (c, ok) := c.send p
    if !ok then (c.finishTx id .closed).emit (.ret call .closed)
    else
      let c := match c.getTx id with
        | some t => c.setTx { t with timer := some (c.now + c.cfg.rd, .sleepResend) }
        | none => c
      { c with waits := c.waits ++ [{ call := call, tx := id, kind := .plain }] }
  else if c.st = .awake then
    let c := c.startSleep id
    { c with waits := c.waits ++ [{ call := call, tx := id, kind := .plain }] }
  else c.emit (.ret call .badState)      -- the transaction stays in the store, never finished

def apiDisconnect (c : Cl) (call : String) (close : Bool) : Cl :=
  if c.st ≠ .active ∧ c.st ≠ .awake then
    -- Disconnect() returns nil at once; Close() then cancels and closes the connection
    let c := if close then { (c.cancelGroup .ok) with connClosed := true } else c
    c.emit (.ret call .ok)
  else
    let (id, c) := c.newTx .disconnect .disconnect
    let c := (c.store .disconnect id).proceed id .disconnect (.disconnect 0)
    let (c, ok) := c.send (.disconnect 0)
    if !ok then (c.finishTx id .closed).emit (.ret call .closed)
    else
      let c := c.setState .disconnected
      { c with waits := c.waits ++ [{ call := call, tx := id, kind := .disconnect close }] }

inductive Api where
  | connect
  | register (name : Bytes)
  | subscribe (name : Bytes) (qos : UInt8)
  | subscribePre (id : UInt16) (qos : UInt8)
  | unsubscribe (name : Bytes)
  | unsubscribePre (id : UInt16)
  | publish (name : Bytes) (qos : UInt8) (retain : Bool) (payload : Bytes)
  | publishPre (id : UInt16) (qos : UInt8) (retain : Bool) (payload : Bytes)
  | ping
  | sleep (dur : Nat)
  | disconnect
  | close
  deriving Repr

/-- label of the callback registered by `SubscribePredefined(id)` in the harness: "#pre<id>" -/
def preLabel (id : UInt16) : Bytes := [0x23, 0x70, 0x72, 0x65] ++ (toString id.toNat).toUTF8.toList

def api (c : Cl) (call : String) (a : Api) : Cl :=
  match a with
  | .connect => c.connectAttempt call 0
  | .register name => c.apiRegister call name
  | .subscribe name qos =>
    if isShortTopic name then c.apiSubscribe call name [] Gen.TIT_SHORT (encodeShortTopic name) qos
    else c.apiSubscribe call name name Gen.TIT_STRING 0 qos
  | .subscribePre id qos => c.apiSubscribe call (preLabel id) [] Gen.TIT_PREDEFINED id qos
  | .unsubscribe name =>
    if isShortTopic name then c.apiUnsubscribe call [] Gen.TIT_SHORT (encodeShortTopic name)
    else c.apiUnsubscribe call name Gen.TIT_STRING 0
  | .unsubscribePre id => c.apiUnsubscribe call [] Gen.TIT_PREDEFINED id
  | .publish name qos retain payload => c.apiPublish call name qos retain payload
  | .publishPre id qos retain payload => c.apiPublishRaw call Gen.TIT_PREDEFINED id qos retain payload
  | .ping => c.apiPing call false
  | .sleep dur => c.apiSleep call dur
  | .disconnect => c.apiDisconnect call false
  | .close => c.apiDisconnect call true

/-! ## packets from the gateway -/

/-- `topicForPublish` -/
def topicFor (c : Cl) (tit : UInt8) (tid : UInt16) : Option Bytes :=
  if tit = Gen.TIT_REGISTERED then
    -- `findTopic` ranges over the map name ↦ ID: only the live (newest) binding of a name counts
    (c.registered.find? fun p => p.2 == tid && c.registered.lookup p.1 == some tid).map (·.1)
  else if tit = Gen.TIT_PREDEFINED then c.cfg.predef.getTopicName c.cfg.cid tid
  else if tit = Gen.TIT_SHORT then some (decodeShortTopic tid)
  else none

/-- live handlers whose route matches the topic (`messageHandlers.handle` picks any one) -/
def matching (c : Cl) (topic : Bytes) : List Bytes :=
  let keys := (c.handlers.map (·.1)).eraseDups
  keys.filterMap fun k =>
    match c.handlers.lookup k with
    | some label => if matchRoute (splitTopic k) (splitTopic topic) then some label else none
    | none => none

def deliver (c : Cl) (topic : Bytes) (qos : UInt8) (retain : Bool) (payload : Bytes) : Cl :=
  let ms := c.matching topic
  if ms.isEmpty then c else c.emit (.handler ms topic qos retain payload)

/-- the receive loop quits with an error -/
def rxFail (c : Cl) (e : Err) : Cl := ({ c with rxAlive := false }).cancelGroup e

def lookupById (c : Cl) (mid : UInt16) : Option Tx := (c.byId.lookup mid).bind c.getTx
def lookupByIdB (c : Cl) (mid : UInt16) : Option Tx := (c.byIdB.lookup mid).bind c.getTx

def sendOrFail (c : Cl) (p : Pkt) : Cl :=
  let (c, ok) := c.send p
  if ok then c else c.rxFail .closed

def handlePacket (c : Cl) (p : Pkt) : Cl :=
  match p with
  | .connack rc =>
    (match c.slotConnect.bind c.getTx with
     | some t =>
       if rc ≠ Gen.RC_ACCEPTED then c.finishTx t.id .rejected
       else (c.setState .active).finishTx t.id .ok
     | none => c)
  | .register tid mid name =>
    let (rc, c) : UInt8 × Cl :=
      if (c.registered.lookup name).isSome ∧ c.registered.lookup name ≠ some tid then (Gen.RC_INVALID_TOPIC_ID, c)
      else (Gen.RC_ACCEPTED, { c with registered := (name, tid) :: c.registered })
    c.sendOrFail (.regack tid mid rc)
  | .regack tid mid rc =>
    (match c.lookupById mid with
     | some t => (match t.kind with
       | .register name =>
         if rc ≠ Gen.RC_ACCEPTED then c.finishTx t.id .rejected
         else ({ c with registered := (name, tid) :: c.registered }).finishTx t.id .ok
       | _ => c)
     | none => c)
  | .suback _ tid mid rc =>
    (match c.lookupById mid with
     | some t => (match t.kind, t.data with
       | .subscribe label, some (.subscribe _ _ tit _ stid name) =>
         if rc ≠ Gen.RC_ACCEPTED then c.finishTx t.id .rejected
         else if tit = Gen.TIT_STRING then
           let c := if tid ≠ 0 then { c with registered := (name, tid) :: c.registered } else c
           ({ c with handlers := (name, label) :: c.handlers }).finishTx t.id .ok
         else if tit = Gen.TIT_PREDEFINED then
           (match c.cfg.predef.getTopicName c.cfg.cid stid with
            | some n => ({ c with handlers := (n, label) :: c.handlers }).finishTx t.id .ok
            | none => c.finishTx t.id .badTopicId)
         else if tit = Gen.TIT_SHORT then
           ({ c with handlers := (decodeShortTopic stid, label) :: c.handlers }).finishTx t.id .ok
         else c.finishTx t.id .badTopicId
       | _, _ => c)
     | none => c)
  | .unsuback mid =>
    (match c.lookupById mid with
     | some t => (match t.kind, t.data with
       | .unsubscribe, some (.unsubscribe tit _ tid name) =>
         let topic? : Option Bytes :=
           if tit = Gen.TIT_STRING then some name
           else if tit = Gen.TIT_PREDEFINED then c.cfg.predef.getTopicName c.cfg.cid tid
           else if tit = Gen.TIT_SHORT then some (decodeShortTopic tid)
           else none
         (match topic? with
          | some n => ({ c with handlers := c.handlers.filter (·.1 != n) }).finishTx t.id .ok
          | none => c.finishTx t.id .badTopicId)
       | _, _ => c)
     | none => c)
  | .publish dup qos retain tit tid mid data =>
    if qos = 2 then
      let (tx?, c) : Option Tx × Cl := match c.byIdB.lookup mid with
        | some id => (c.getTx id, c)          -- a resent PUBLISH of an exchange in progress
        | none =>
          let (id, c) := c.newTx (.brokerPub2 p) (.byIdB mid)
          let c := c.store (.byIdB mid) id
          (c.getTx id, c)
      (match tx? with
       | some t => (match t.kind with
         | .brokerPub2 _ => (c.setTx { t with kind := .brokerPub2 (.publish dup qos retain tit tid mid data) }).sendOrFail (.pubrec mid)
         | _ => c)
       | none => c)
    else if qos = 0 ∨ qos = 1 then
      let c := if qos = 1 then c.sendOrFail (.puback tid mid Gen.RC_ACCEPTED) else c
      if !c.rxAlive then c else
      match c.topicFor tit tid with
      | some topic => c.deliver topic qos retain data
      | none => c.rxFail .badTopicId
    else c.rxFail .badQos
  | .pubrel mid =>
    (match c.lookupByIdB mid with
     | some t => (match t.kind with
       | .brokerPub2 (.publish _ qos retain tit tid _ data) =>
         (match c.topicFor tit tid with
          | some topic =>
            let c := c.deliver topic qos retain data
            let (c, ok) := c.send (.pubcomp mid)
            if ok then c.finishTx t.id .ok else c
          | none =>
            -- the message cannot be delivered; the exchange is completed all the same
            let (c, ok) := c.send (.pubcomp mid)
            if ok then c.finishTx t.id .ok else c)
       | _ => c.sendOrFail (.pubcomp mid))
     | none => c.sendOrFail (.pubcomp mid))
  | .puback _ mid _ =>
    (match c.lookupById mid with
     | some t => (match t.kind with
       | .pub1 => c.finishTx t.id .ok
       | _ => c)
     | none => c)
  | .pubrec mid =>
    (match c.lookupById mid with
     | some t => (match t.kind with
       | .pub2 .awaitingPubrec => (c.proceed t.id (.pub2 .awaitingPubcomp) (.pubrel mid)).sendOrFail (.pubrel mid)
       | _ => c)
     | none => c)
  | .pubcomp mid =>
    (match c.lookupById mid with
     | some t => (match t.kind with
       | .pub2 .awaitingPubcomp => c.finishTx t.id .ok
       | _ => c)
     | none => c)
  | .disconnect _ =>
    (match c.slotDisconnect.bind c.getTx with
     | some t => (match t.kind with
       | .disconnect => c.finishTx t.id .ok
       | .sleep .awaitingDisconnect _ _ => c.startSleep t.id
       | _ => c)
     | none => (c.setState .disconnected).cancelGroup .ok)
  | .willtopicreq =>
    (match c.cfg.will with
     | some (t, _, q, r) => c.sendOrFail (.willtopic q r t)
     | none => c.sendOrFail (.willtopic 0 false []))
  | .willmsgreq =>
    (match c.cfg.will with
     | some (_, m, _, _) => c.sendOrFail (.willmsg m)
     | none => c.sendOrFail (.willmsg []))
  | .pingresp =>
    let t? := match c.slotPing.bind c.getTx with
      | some t => some t
      | none => c.slotDisconnect.bind c.getTx
    (match t? with
     | some t => (match t.kind with
       | .ping _ => c.finishTx t.id .ok
       | .sleep .awaitingPingresp _ _ => c.finishTx t.id .ok
       | _ => c)
     | none => c)
  | _ => c.rxFail .unhandledPacket

/-! ## time -/

/-- a transaction timer fires -/
def fireTx (c : Cl) (t : Tx) (k : TimerKind) : Cl :=
  match k with
  | .timed => c.finishTx t.id .timeout
  | .retry =>
    if t.done then c.setTx { t with timer := none }
    else if t.retryNum + 1 > c.cfg.rc then c.finishTx t.id .noMoreRetries
    else
      let p? : Option Pkt := t.data.map fun p => match p with
        | .subscribe _ q tit m tid n => .subscribe true q tit m tid n
        | .publish _ q r tit tid m d => .publish true q r tit tid m d
        | p => p
      let c := c.setTx { t with data := p?, retryNum := t.retryNum + 1, timer := some (c.now + c.cfg.rd, .retry) }
      (match p? with
       | some p =>
         let (c, ok) := c.send p
         if ok then c else c.finishTx t.id .closed
       | none => c)
  | .sleepResend =>
    (match t.kind, t.data with
     | .sleep .awaitingDisconnect dur n, some p =>
       if n + 1 > c.cfg.rc then c.finishTx t.id .noMoreRetries
       else
         let (c, ok) := c.send p
         if !ok then c.finishTx t.id .closed
         else c.setTx { t with kind := .sleep .awaitingDisconnect dur (n + 1), timer := some (c.now + c.cfg.rd, .sleepResend) }
     | _, _ => c.setTx { t with timer := none })
  | .sleepWake =>
    (match t.kind with
     | .sleep _ dur n =>
       let c := c.setState .awake
       let (c, ok) := c.send (.pingreq c.cfg.cid)
       if !ok then c.finishTx t.id .closed
       else c.setTx { t with kind := .sleep .awaitingPingresp dur n, timer := some (c.now + Gen.maxPingrespWait, .pingrespWait) }
     | _ => c.setTx { t with timer := none })
  | .pingrespWait => c.finishTx t.id .pingrespTimeout

inductive Due where
  | tx (id : Nat) (at_ : Nat) (k : TimerKind)
  | kaTick (at_ : Nat)
  | rxPoll (at_ : Nat)
  deriving Repr

def Due.time : Due → Nat
  | .tx _ t _ | .kaTick t | .rxPoll t => t

def nextDue (c : Cl) (t : Nat) : Option Due :=
  let txDue := c.txs.filterMap fun x => match x.timer with
    | some (d, k) => if d ≤ t then some (Due.tx x.id d k) else none
    | none => none
  let ka := match c.kaTick with | some d => if d ≤ t then [Due.kaTick d] else [] | none => []
  let rx := if c.rxAlive ∧ c.readDeadline ≤ t then [Due.rxPoll c.readDeadline] else []
  (txDue ++ ka ++ rx).foldl (fun best d => match best with
    | none => some d
    | some b => if d.time < b.time then some d else some b) none

def fireDue (c : Cl) (d : Due) : Cl :=
  let c := { c with now := d.time }
  match d with
  | .tx id _ k => (match c.getTx id with | some t => c.fireTx t k | none => c)
  | .kaTick _ =>
    let c := { c with kaTick := some (c.now + c.cfg.ka * 1000) }
    if c.kaPinging then { c with kaMissed := true }
    else ({ c with kaPinging := true }).apiPing "#keepalive" true
  | .rxPoll _ =>
    -- the read timed out: the loop looks at its context and reads again
    if !c.alive then { c with rxAlive := false } else { c with readDeadline := c.now + 1000 }

/-- API calls return when their transaction is done, or (blocked ones) when the group has ended -/
def groupDone (c : Cl) : Bool := !c.alive && !c.rxAlive

/-- what an API call interrupted by the end of the client returns (`waitTerminated`): never nil -/
def interrupted (c : Cl) : Err := if c.groupErr = .ok then .terminated else c.groupErr

/-- one blocked API call: it returns when its transaction is done, or when the group has ended;
    otherwise it keeps waiting -/
def settleOne (c : Cl) (w : Wait) : Cl :=
  match c.getTx w.tx with
  | some t =>
    if t.done ∧ !w.committed then
      match w.kind with
      | .plain =>
        if w.call = "#keepalive" then
          if t.err = .ok then
            -- a tick that came meanwhile is not lost: the next PINGREQ goes out at once (while active)
            if c.kaMissed ∧ c.st = .active ∧ c.alive then ({ c with kaMissed := false }).apiPing "#keepalive" true
            else { c with kaPinging := false, kaMissed := false }
          else if t.err = .keepaliveStopped then { c with kaPinging := false, kaMissed := false }
          else ({ c with kaPinging := false, kaMissed := false, kaAlive := false }).cancelGroup t.err
        else if c.groupDone ∧ t.err ≠ c.interrupted then c.emit (.retEither w.call t.err c.interrupted)
        else c.emit (.ret w.call t.err)
      | .connect i =>
        if c.groupDone ∧ t.err ≠ c.interrupted ∧ t.err ≠ .timeout then c.emit (.retEither w.call t.err c.interrupted)
        else if t.err = .ok then c.emit (.ret w.call .ok)
        else if t.err = .timeout then
          if i + 1 < c.cfg.rc + 1 then c.connectAttempt w.call (i + 1)
          else c.emit (.ret w.call .connectTimeout)
        else c.emit (.ret w.call t.err)
      | .disconnect close =>
        if c.groupDone ∧ c.groupErr ≠ .ok then
          -- either branch of the select; Close() does not close the connection on an error
          let c := if close ∧ (t.err = .ok ∨ t.err = .noMoreRetries) then c else c
          c.emit (.retEither w.call (if t.err = .noMoreRetries then .ok else t.err) c.groupErr)
        else if t.err = .ok ∨ t.err = .noMoreRetries then
          let c := c.cancelGroup .ok
          let c := if close then { c with connClosed := true } else c
          c.emit (.ret w.call .ok)
        else c.emit (.ret w.call t.err)
    else if c.groupDone then
      if w.call = "#keepalive" then c
      else match w.kind with
        | .disconnect _ => c.emit (.ret w.call c.groupErr)      -- Disconnect() reports the group's own result
        | _ => c.emit (.ret w.call c.interrupted)
    else { c with waits := c.waits ++ [{ w with committed := w.committed || !c.alive }] }
  | none => c

def settle (c : Cl) : Cl := c.waits.foldl settleOne { c with waits := [] }

/-- the connection was closed under the receive loop: it ends at once with an error -/
def afterClose (c : Cl) : Cl :=
  if c.connClosed ∧ c.rxAlive then
    match c.cancelledAt with
    | some _ => { c with rxAlive := false, groupErr := if c.groupErr = .ok then .closed else c.groupErr }
    | none => c.rxFail .closed
  else c

def finishGroup (c : Cl) : Cl :=
  if c.groupDone ∧ !c.doneEmitted then ({ c with doneEmitted := true }).emit (.done c.groupErr) else c

/-- bring the model to a fixed point at the current instant -/
def quiesce : Nat → Cl → Cl
  | 0, c => c
  | n + 1, c =>
    let c' := (c.settle.afterClose).finishGroup
    if c'.waits.length = c.waits.length ∧ c'.outs.length = c.outs.length ∧ c'.rxAlive = c.rxAlive ∧
       c'.cancelledAt = c.cancelledAt ∧ c'.doneEmitted = c.doneEmitted then c'
    else quiesce n c'

def advance : Nat → Cl → Nat → Cl
  | 0, c, t => { c with now := max c.now t }
  | fuel + 1, c, t =>
    match c.nextDue t with
    | some d => advance fuel ((c.fireDue d).quiesce 8) t
    | none => { c with now := max c.now t }

inductive Event where
  | api (call : String) (a : Api)
  | sn (bytes : Bytes)
  | tick
  deriving Repr

def sample (c : Cl) : Cl :=
  if c.st ≠ c.sampledState then ({ c with sampledState := c.st }).emit (.state c.st) else c

def stepCore (c : Cl) (t : Nat) (ev : Event) : Cl :=
  let c := advance 100000 c t
  let c := match ev with
    | .api call a => c.api call a
    | .sn bytes =>
      if !c.rxAlive then c
      else
        let c := { c with readDeadline := c.now + 1000 }
        -- the pending read returns the datagram even when the group has been cancelled meanwhile:
        -- the packet is handled, and the loop looks at its context afterwards
        if false then c
        else
          let c := match decode (bytes.take Gen.MaxPacketLen) with
            | .ok (_, p) => c.handlePacket p
            | _ => c.rxFail .decode
          -- ... and right after handling a packet (a DISCONNECT from the gateway cancels the group)
          if !c.alive then { c with rxAlive := false } else c
    | .tick => c
  let c := c.quiesce 8
  advance 100000 c t

def step (c : Cl) (t : Nat) (ev : Event) : Cl := (c.stepCore t ev).sample

def run (c : Cl) (evs : List (Nat × Event)) : Cl := evs.foldl (fun c (t, e) => c.step t e) c

end Cl
end Bisquitt.Cl
