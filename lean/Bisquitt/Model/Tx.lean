/-
  L2 transactions: transactions/transaction_base.go, retry_transaction.go,
  timed_transaction.go at method-atomic granularity (every method body runs under the
  transaction's mutex, see Model/Mutex.lean for why that is the right granularity).

  Two semantics share the same method bodies:
  * timed/deterministic (`Retry.run`, `Timed.run`): virtual clock, `Stop()` works on a timer that
    has not expired — what the correspondence harness replays under testing/synctest (C19);
  * adversarial (`Adv`): a timer callback of ANY generation ever armed may still run, stopped or
    not (a fired callback may already be waiting for the mutex) — the schedule quantifier of C18.
-/
namespace Bisquitt.Tx

inductive Err where
  | timeout | noMoreRetries | cancelled | user (n : Nat)
  deriving Repr, DecidableEq

/-- `TransactionBase`: `done` channel closed?, `err`, number of `finally` runs. -/
structure Base where
  done : Bool := false
  err : Option Err := none
  finallyRuns : Nat := 0
  deriving Repr, DecidableEq

namespace Base
/-- `TransactionBase.Success` -/
def success (b : Base) : Base :=
  if b.done then b else { b with done := true, finallyRuns := b.finallyRuns + 1 }
/-- `TransactionBase.Fail` -/
def fail (b : Base) (e : Err) : Base :=
  if b.done then b else { done := true, err := some e, finallyRuns := b.finallyRuns + 1 }
end Base

/-! ## timed semantics -/

/-- observable log entry of the timed semantics -/
inductive Obs where
  | cb (t : Nat) (k : Nat)        -- k-th retry callback started at time t
  | done (t : Nat) (e : Option Err)
  deriving Repr, DecidableEq

/-- `RetryTransaction` -/
structure Retry where
  base : Base := {}
  delay : Nat
  count : Nat
  retryNum : Nat := 0
  timer : Option Nat := none     -- deadline of the live timer
  watcher : Bool := true         -- the ctx-watcher goroutine is still there (it exits after one cancel)
  cbs : Nat := 0                 -- callbacks invoked so far
  log : List Obs := []           -- newest first
  deriving Repr

namespace Retry
def noteDone (r : Retry) (t : Nat) (b : Base) : Retry :=
  if !r.base.done && b.done then { r with base := b, log := Obs.done t b.err :: r.log } else { r with base := b }

/-- `Success()` at time `t` -/
def success (r : Retry) (t : Nat) : Retry := (noteDone { r with timer := none } t r.base.success)
/-- `Fail(e)` at time `t` -/
def fail (r : Retry) (t : Nat) (e : Err) : Retry := (noteDone { r with timer := none } t (r.base.fail e))
/-- `Proceed(state, data)` at time `t` -/
def proceed (r : Retry) (t : Nat) : Retry :=
  if r.base.done then r else { r with retryNum := 0, timer := some (t + r.delay) }
/-- ctx cancelled: the watcher goroutine only stops the timer -/
def cancel (r : Retry) : Retry :=
  if r.base.done || !r.watcher then r else { r with timer := none, watcher := false }

/-- `timeout()`: the timer with deadline `d` expires; `cbErr k` = error returned by the k-th callback -/
def expire (r : Retry) (d : Nat) (cbErr : Nat → Option Nat) : Retry :=
  let r := { r with timer := none }
  if r.base.done then r
  else
    let r := { r with retryNum := r.retryNum + 1 }
    if r.retryNum > r.count then noteDone r d (r.base.fail .noMoreRetries)
    else
      let k := r.cbs + 1
      let r := { r with cbs := k, log := Obs.cb d k :: r.log }
      match cbErr k with
      | some n => noteDone r d (r.base.fail (.user n))
      | none => { r with timer := some (d + r.delay) }

/-- fire every expiry with deadline ≤ `t`, in order (fuel bounds the cascade) -/
def runUntil (cbErr : Nat → Option Nat) : Nat → Retry → Nat → Retry
  | 0, r, _ => r
  | fuel + 1, r, t =>
    match r.timer with
    | some d => if d ≤ t then runUntil cbErr fuel (r.expire d cbErr) t else r
    | none => r
end Retry

/-- `TimedTransaction` -/
structure Timed where
  base : Base := {}
  timer : Option Nat
  watcher : Bool := true
  log : List Obs := []
  deriving Repr

namespace Timed
def new (t timeout : Nat) : Timed := { timer := some (t + timeout) }
def noteDone (r : Timed) (t : Nat) (b : Base) : Timed :=
  if !r.base.done && b.done then { r with base := b, log := Obs.done t b.err :: r.log } else { r with base := b }
def success (r : Timed) (t : Nat) : Timed := noteDone { r with timer := none } t r.base.success
def fail (r : Timed) (t : Nat) (e : Err) : Timed := noteDone { r with timer := none } t (r.base.fail e)
def cancel (r : Timed) : Timed := if r.base.done || !r.watcher then r else { r with timer := none, watcher := false }
def runUntil (r : Timed) (t : Nat) : Timed :=
  match r.timer with
  | some d => if d ≤ t then noteDone { r with timer := none } d (r.base.fail .timeout) else r
  | none => r
end Timed

/-! ## adversarial (schedule) semantics of the retry transaction -/

inductive AdvEv where
  | success | fail (e : Err) | proceed | cancel
  | timeoutCb (gen : Nat) (cbErr : Option Nat)   -- the callback of timer generation `gen` runs now
  deriving Repr, DecidableEq

structure Adv where
  base : Base := {}
  count : Nat
  retryNum : Nat := 0
  armed : List Nat := []          -- every timer generation ever armed (Stop() never removes one)
  nextGen : Nat := 0
  cbStarts : Nat := 0             -- retry callbacks started
  cbAfterDone : Nat := 0          -- ... of which after `done` closed
  armedAfterDone : Nat := 0       -- timers armed after `done` closed
  errAtDone : Option (Option Err) := none   -- Err() at the moment done closed
  errChanged : Bool := false      -- Err() differed from errAtDone at some later point
  deriving Repr

namespace Adv
def setBase (a : Adv) (b : Base) : Adv :=
  let a' := { a with base := b }
  if !a.base.done && b.done then { a' with errAtDone := some b.err }
  else if a.base.done && b.err != a.base.err then { a' with errChanged := true } else a'

def arm (a : Adv) : Adv :=
  { a with armed := a.nextGen :: a.armed, nextGen := a.nextGen + 1,
           armedAfterDone := if a.base.done then a.armedAfterDone + 1 else a.armedAfterDone }

/-- the body of `timeout()` (runs under the mutex); `cbErr` = error returned by the retry callback -/
def fire (a : Adv) (cbErr : Option Nat) : Adv :=
  if a.base.done then a
  else if a.retryNum + 1 > a.count then
    ({ a with retryNum := a.retryNum + 1 }).setBase (a.base.fail .noMoreRetries)
  else
    let a2 := { a with retryNum := a.retryNum + 1, cbStarts := a.cbStarts + 1,
                       cbAfterDone := if a.base.done then a.cbAfterDone + 1 else a.cbAfterDone }
    match cbErr with
    | some n => a2.setBase (a2.base.fail (.user n))
    | none => a2.arm

def step (a : Adv) : AdvEv → Adv
  | .success => a.setBase a.base.success
  | .fail e => a.setBase (a.base.fail e)
  | .proceed => if a.base.done then a else ({ a with retryNum := 0 }).arm
  | .cancel => a
  | .timeoutCb g cbErr =>
    -- only a timer that was armed at some point can fire; Stop() is assumed never to help
    if a.armed.contains g then a.fire cbErr else a

def run (a : Adv) (evs : List AdvEv) : Adv := evs.foldl step a
end Adv

end Bisquitt.Tx
