/-
  The predefined-topics pipeline of the three command-line tools (cmd/*/actions.go):
  the YAML file, then `ParsePredefinedTopicOptions(options...)`, then `file.Merge(options)`;
  and their start-up guard against plaintext credentials.
-/
import Bisquitt.Model.Topics

namespace Bisquitt.Cli
open Bisquitt

/-- the mapping a tool uses: `none` = the tool refuses to start (an option does not parse) -/
def effective (yaml : Predef) (opts : List Bytes) : Option Predef :=
  (parseOptions opts).map fun o => yaml.merge o

/-- the binding of one (client, ID) pair in a configuration (no "*" fallback) -/
def entry (t : Predef) (c : Bytes) (id : UInt16) : Option Bytes := (t.lookup c).bind (·.lookup id)

/-- the YAML file as the decoder delivers it: clients in file order, each with its entries;
    a client key without a body has an empty map -/
def fromYaml (entries : List (Bytes × UInt16 × Bytes)) (nulls : List Bytes) : Predef :=
  let t : Predef := entries.foldl (fun (acc : Predef) (e : Bytes × UInt16 × Bytes) => acc.add e.1 e.2.2 e.2.1) []
  nulls.foldl (fun (acc : Predef) c => match acc.lookup c with | some _ => acc | none => (c, []) :: acc) t

/-- start-up guard of all three tools: credentials configured (`--auth` / `--user`), no DTLS,
    no `--insecure` ⇒ refuse -/
def refusesToStart (creds dtls insecure : Bool) : Bool := creds && !dtls && !insecure

end Bisquitt.Cli
