/-
  L1 pure: util/id_sequence.go and transactions/transaction_store.go (sequential semantics of
  one method call = the body executed under the mutex).
-/
import Bisquitt.Model.Bytes

namespace Bisquitt

/-- `util.IDSequence` (without its mutex) -/
structure IdSeq where
  next : UInt16
  min : UInt16
  max : UInt16
  overflow : Bool
  deriving Repr, DecidableEq

namespace IdSeq
/-- `NewIDSequence` -/
def new (mn mx : UInt16) : IdSeq := { next := mn, min := mn, max := mx, overflow := false }

/-- the body of `IDSequence.Next`: returns `(id, overflow)` and the new state.
    (Go clears the overflow flag after reading it and sets it again iff the counter wraps,
    so after the call the flag is exactly "this call wrapped".) -/
def step (c : IdSeq) : (UInt16 × Bool) × IdSeq :=
  if c.next = c.max then ((c.next, c.overflow), { c with next := c.min, overflow := true })
  else ((c.next, c.overflow), { c with next := c.next + 1, overflow := false })

/-- `k` successive calls: the outputs, oldest first, and the final state -/
def steps : Nat → IdSeq → List (UInt16 × Bool) × IdSeq
  | 0, c => ([], c)
  | k + 1, c =>
    let (o, c') := c.step
    let (os, c'') := steps k c'
    (o :: os, c'')
end IdSeq

/-- `transactions.TransactionStore` with transactions abstracted to an arbitrary value type:
    two independent maps (association lists, first binding live). -/
structure Store (τ : Type) where
  byId : List (UInt16 × τ)
  byType : List (UInt8 × τ)

namespace Store
def empty {τ} : Store τ := { byId := [], byType := [] }
def store {τ} (s : Store τ) (id : UInt16) (t : τ) : Store τ := { s with byId := (id, t) :: s.byId }
def storeByType {τ} (s : Store τ) (ty : UInt8) (t : τ) : Store τ := { s with byType := (ty, t) :: s.byType }
def get {τ} (s : Store τ) (id : UInt16) : Option τ := s.byId.lookup id
def getByType {τ} (s : Store τ) (ty : UInt8) : Option τ := s.byType.lookup ty
def delete {τ} (s : Store τ) (id : UInt16) : Store τ := { s with byId := s.byId.filter (·.1 != id) }
def deleteByType {τ} (s : Store τ) (ty : UInt8) : Store τ := { s with byType := s.byType.filter (·.1 != ty) }
end Store

end Bisquitt
