/-
  L0: bytes, big-endian u16, Go-style partial operations.

  `Res α` is the outcome of a Go computation that may return an error or panic.
  Every Go index/slice expression of the decoder is modelled by `getB`/`sliceFrom`/
  `slice`, which yield `.panic` exactly when Go's bounds check fails (with respect to
  the slice *length*; the real code can additionally read zero bytes up to the 8192-byte
  capacity, so the model panics at least as often as the code: "model never panics" is
  the safe direction).
-/
namespace Bisquitt

abbrev Bytes := List UInt8

inductive Res (α : Type) where
  | ok (a : α)
  | err
  | panic
  deriving Repr, DecidableEq

namespace Res
@[inline] def bind {α β} (r : Res α) (f : α → Res β) : Res β :=
  match r with
  | .ok a => f a
  | .err => .err
  | .panic => .panic
instance : Monad Res where
  pure := .ok
  bind := Res.bind

@[simp] theorem ok_bind {α β} (a : α) (f : α → Res β) : (Res.ok a >>= f) = f a := rfl
@[simp] theorem err_bind {α β} (f : α → Res β) : ((Res.err : Res α) >>= f) = .err := rfl
@[simp] theorem panic_bind {α β} (f : α → Res β) : ((Res.panic : Res α) >>= f) = .panic := rfl
@[simp] theorem pure_eq {α} (a : α) : (pure a : Res α) = .ok a := rfl
end Res

/-- big-endian uint16 from two bytes -/
def mk16 (hi lo : UInt8) : UInt16 := UInt16.ofNat (hi.toNat * 256 + lo.toNat)
def hi8 (x : UInt16) : UInt8 := UInt8.ofNat (x.toNat / 256)
def lo8 (x : UInt16) : UInt8 := UInt8.ofNat (x.toNat % 256)
/-- `pkts.EncodeUint16` -/
def enc16 (x : UInt16) : Bytes := [hi8 x, lo8 x]

/-- Go `buf[i]` -/
def getB (bs : Bytes) (i : Nat) : Res UInt8 :=
  match bs[i]? with
  | some b => .ok b
  | none => .panic

/-- Go `buf[i:]` -/
def sliceFrom (bs : Bytes) (i : Nat) : Res Bytes :=
  if i ≤ bs.length then .ok (bs.drop i) else .panic

/-- Go `buf[i:j]` (bounds checked against the length, see header comment) -/
def slice (bs : Bytes) (i j : Nat) : Res Bytes :=
  if i ≤ j ∧ j ≤ bs.length then .ok ((bs.drop i).take (j - i)) else .panic

/-- Go `binary.BigEndian.Uint16(buf[i:i+2])` -/
def get16 (bs : Bytes) (i : Nat) : Res UInt16 := do
  let a ← getB bs i
  let b ← getB bs (i + 1)
  pure (mk16 a b)

theorem getB_ok {bs : Bytes} {i : Nat} (h : i < bs.length) : getB bs i = .ok bs[i] := by
  simp [getB, h]

theorem get16_ok {bs : Bytes} {i : Nat} (h : i + 1 < bs.length) :
    get16 bs i = .ok (mk16 bs[i] bs[i+1]) := by
  have h0 : i < bs.length := by omega
  simp [get16, getB_ok h0, getB_ok h, bind, Res.bind]

theorem sliceFrom_ok {bs : Bytes} {i : Nat} (h : i ≤ bs.length) :
    sliceFrom bs i = .ok (bs.drop i) := by simp [sliceFrom, h]

theorem mk16_hi_lo (x : UInt16) : mk16 (hi8 x) (lo8 x) = x := by
  apply UInt16.toNat_inj.mp
  have := x.toNat_lt
  simp [mk16, hi8, lo8]
  omega

theorem hi8_mk16 (a b : UInt8) : hi8 (mk16 a b) = a := by
  apply UInt8.toNat_inj.mp
  have := a.toNat_lt; have := b.toNat_lt
  simp [mk16, hi8]
  try omega

theorem lo8_mk16 (a b : UInt8) : lo8 (mk16 a b) = b := by
  apply UInt8.toNat_inj.mp
  have := a.toNat_lt; have := b.toNat_lt
  simp [mk16, lo8]
  try omega

end Bisquitt
