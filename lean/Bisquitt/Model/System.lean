/-
  The composed system of C26: the client model and the gateway model joined by a lossless,
  zero-delay link, and a small conforming MQTT broker (one session).  An API call of the
  application or a publish of some other broker client is followed by the exchange of all the
  datagrams and MQTT packets it causes (`pump`); time passes in ticks (`tick`).

  Executable; the system suite runs it beside the real client, the real gateway and the harness'
  broker (`harness/system_drv_test.go`) on the same scripts.
-/
import Bisquitt.Model.Client
import Bisquitt.Model.Gateway
import Bisquitt.Spec.Match

namespace Bisquitt.Sys
open Bisquitt

/-! ## the broker -/

structure Broker where
  subs : List (Bytes × UInt8) := []                    -- filter ↦ granted QoS, one entry per filter
  recv : List (Bytes × Bytes × UInt8 × Bool) := []     -- PUBLISHes received (topic, payload, QoS, retain), newest first
  parked : List (UInt16 × Bytes × Bytes) := []         -- QoS 2 messages waiting for their PUBREL
  mid : Nat := 0
  deriving Repr

namespace Broker

def filterMatches (filter topic : Bytes) : Bool := specMatch (splitTopic filter) (splitTopic topic)

def matching (b : Broker) (topic : Bytes) : List (Bytes × UInt8) := b.subs.filter fun s => filterMatches s.1 topic

/-- a message for `topic` goes to the session once if a subscription matches: at the highest QoS
    granted by a matching subscription, capped by the message's own -/
def route (b : Broker) (topic payload : Bytes) (qos : UInt8) : Broker × List Gw.MqPkt :=
  let ms := b.matching topic
  let b := { b with mid := b.mid + 1 }
  if ms.isEmpty then (b, [])
  else
    let best := ms.foldl (fun a s => max a s.2) 0
    let q := min best qos
    (b, [.publish false q false (if q = 0 then 0 else UInt16.ofNat b.mid) topic payload])

def handle (b : Broker) (p : Gw.MqPkt) : Broker × List Gw.MqPkt :=
  match p with
  | .connect .. => ({ b with subs := [] }, [.connack 0])
  | .subscribe mid _ topic qos =>
    ({ b with subs := (topic, qos) :: b.subs.filter (·.1 ≠ topic) }, [.suback mid 0 [qos]])
  | .unsubscribe mid topic => ({ b with subs := b.subs.filter (·.1 ≠ topic) }, [.unsuback mid])
  | .publish _ qos retain mid topic payload =>
    let b := { b with recv := (topic, payload, qos, retain) :: b.recv }
    if qos = 1 then
      let (b, rs) := b.route topic payload qos
      (b, .puback mid :: rs)
    else if qos = 2 then ({ b with parked := (mid, topic, payload) :: b.parked }, [.pubrec mid])
    else b.route topic payload qos
  | .pubrel mid =>
    match b.parked.lookup mid with
    | some (topic, payload) =>
      let (b, rs) := ({ b with parked := b.parked.filter (·.1 ≠ mid) } : Broker).route topic payload 2
      (b, .pubcomp mid :: rs)
    | none => (b, [.pubcomp mid])
  | .pubrec mid => (b, [.pubrel mid])
  | .pingreq => (b, [.pingresp])
  | _ => (b, [])

end Broker

/-! ## the composition -/

/-- what the application and the broker's operator see -/
inductive Obs where
  | ret (call : String) (e : Cl.Err)
  | handler (filters : List Bytes) (topic payload : Bytes) (qos : UInt8)
  deriving Repr, DecidableEq

structure Sys where
  cl : Cl.Cl
  gw : Gw.Gw
  br : Broker := {}
  now : Nat := 0
  clSeen : Nat := 0            -- outputs of the two models already carried over the link
  gwSeen : Nat := 0
  obs : List Obs := []         -- newest first
  deriving Repr

namespace Sys

def newOuts {α} (outs : List (Nat × α)) (seen : Nat) : List α :=
  ((outs.take (outs.length - seen)).reverse).map (·.2)

def feedGw (s : Sys) (ev : Gw.Gw.Event) : Sys := { s with gw := s.gw.step s.now ev }
def feedCl (s : Sys) (ev : Cl.Cl.Event) : Sys := { s with cl := s.cl.step s.now ev }
def observe (s : Sys) (o : Obs) : Sys := { s with obs := o :: s.obs }

/-- the broker's packets reach the gateway in order -/
def feedMqs (s : Sys) (rs : List Gw.MqPkt) : Sys := rs.foldl (fun (s : Sys) r => s.feedGw (.mq r)) s

def brokerIn (s : Sys) (p : Gw.MqPkt) : Sys :=
  let r := s.br.handle p
  ({ s with br := r.1 } : Sys).feedMqs r.2

/-- a message of another client of the broker is routed to the session (not carried further yet) -/
def routeIn (s : Sys) (topic payload : Bytes) (qos : UInt8) : Sys :=
  let r := s.br.route topic payload qos
  ({ s with br := r.1 } : Sys).feedMqs r.2

def clOut (s : Sys) (o : Cl.Out) : Sys :=
  match o with
  | .sn b => s.feedGw (.sn b)
  | .ret call e => s.observe (.ret call e)
  | .retEither call e _ => s.observe (.ret call e)
  | .handler fs topic q _ p => s.observe (.handler fs topic p q)
  | _ => s

def gwOut (s : Sys) (o : Gw.Out) : Sys :=
  match o with
  | .sn b => s.feedCl (.sn b)
  | .mq p => s.brokerIn p
  | _ => s

/-- carry everything the two models have produced since the last round -/
def pumpOnce (s : Sys) : Sys :=
  let cs := newOuts s.cl.outs s.clSeen
  let s := cs.foldl clOut { s with clSeen := s.cl.outs.length }
  let gs := newOuts s.gw.outs s.gwSeen
  gs.foldl gwOut { s with gwSeen := s.gw.outs.length }

def quiet (s : Sys) : Bool := s.cl.outs.length == s.clSeen && s.gw.outs.length == s.gwSeen

def pump : Nat → Sys → Sys
  | 0, s => s
  | n + 1, s => if s.quiet then s else pump n s.pumpOnce

def tickLen : Nat := 50

def tick (s : Sys) : Sys :=
  let s := { s with now := s.now + tickLen }
  ((s.feedCl .tick).feedGw .tick).pump 64

def returned (s : Sys) (call : String) : Bool :=
  s.obs.any fun o => match o with | .ret c _ => c == call | _ => false

/-- let time pass until the call has returned -/
def await : Nat → Sys → String → Sys
  | 0, s, _ => s
  | n + 1, s, call => if s.returned call then s else await n s.tick call

def ticks : Nat → Sys → Sys
  | 0, s => s
  | n + 1, s => ticks n s.tick

/-- another client of the broker publishes -/
def inject (s : Sys) (topic payload : Bytes) (qos : UInt8) : Sys := (s.routeIn topic payload qos).pump 64

inductive Op where
  | api (call : String) (a : Cl.Cl.Api)
  | inject (topic payload : Bytes) (qos : UInt8)
  | burst (topic : Bytes) (qos : UInt8) (payloads : List Bytes)
  /-- Sleep(d) with a broker message arriving 300 ms into the sleep -/
  | sleepInject (call : String) (d : Nat) (topic payload : Bytes) (qos : UInt8)
  deriving Repr

def call (s : Sys) (c : String) (a : Cl.Cl.Api) : Sys := ((s.feedCl (.api c a)).pump 64)

def op (s : Sys) (o : Op) : Sys :=
  let s := match o with
    | .api c a => (s.call c a).await 400 c
    | .inject topic payload qos => (s.inject topic payload qos).ticks 1
    | .burst topic qos payloads =>
      ((payloads.foldl (fun (s : Sys) p => s.routeIn topic p qos) s).pump 64).ticks 3
    | .sleepInject c d topic payload qos =>
      ((((s.call c (.sleep d)).ticks 6).inject topic payload qos)).await 400 c
  s.ticks 1

def init (ccfg : Cl.Cfg) (gcfg : Gw.Cfg) : Sys :=
  { cl := { cfg := ccfg }, gw := Gw.Gw.init gcfg Gen.MinTopicAlias Gen.MaxTopicAlias }

def run (s : Sys) (ops : List Op) : Sys := (ops.foldl op s).ticks 3

end Sys
end Bisquitt.Sys
