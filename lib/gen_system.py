#!/usr/bin/env python3
"""Case generator for the system suite (C26): scripts of client API calls and broker-side publishes
for the real client + real gateway + a conforming broker.

usage: gen_system.py <seed> <ncases> <profile> > cases.txt

A script keeps the application within the documented use of the API (connect first, calls that need
a session only while active, a Publish on an unregistered name only where its documented failure is
expected) and ends in a state where everything routed to the session can have been delivered (a
sleeping client reconnects before the end).  Payloads are unique within a case, so every message is
identified in the handler log.
"""
import random, sys


def H(b):
    return b.hex() if b else "-"


NAMES = [b'a/b', b'a/c', b'b/b', b'a/b/c', b'sensor/1/temp', b'k']
SHORT = [b'ab', b'xy']
FILTERS = [b'a/+', b'a/#', b'+/b', b'#', b'a/b', b'b/b', b'ab', b'sensor/+/temp', b'+/+/c']
PREDEF = [(b'p/1', 1), (b'p/2', 700)]


class G:
    def __init__(self, r, cid, profile):
        self.r, self.profile = r, profile
        self.ops = []
        self.n = 0
        self.pl = 0
        self.state = "disconnected"
        self.registered = set()      # names the application may publish on
        self.subs = set()
        self.newtopics = 0
        self.usepredef = r.random() < 0.6

    def op(self, *a):
        self.n += 1
        self.ops.append("@%d %s" % (self.n, " ".join(str(x) for x in a)))

    def payload(self):
        self.pl += 1
        return bytes([0x40 + self.pl // 200, 1 + self.pl % 200])

    def fresh_topic(self):
        """a topic name the client has no TopicID for, matching one of the wildcard filters"""
        self.newtopics += 1
        return self.r.choice([b'a/n%d', b'a/n%d/c', b'n%d/b', b'zz/n%d']) % self.newtopics

    def some_topic(self):
        r = self.r
        k = r.random()
        if k < 0.35:
            return self.fresh_topic()
        if k < 0.45 and self.newtopics:
            return self.r.choice([b'a/n%d', b'n%d/b']) % r.randint(1, self.newtopics)
        if k < 0.55:
            return r.choice(SHORT)
        if k < 0.62 and self.usepredef:
            return r.choice(PREDEF)[0]
        return r.choice(NAMES)

    def active_op(self):
        r = self.r
        k = r.random()
        if k < 0.10:
            n = r.choice(NAMES)
            self.op("register", H(n))
            self.registered.add(n)
        elif k < 0.28:
            f = r.choice(FILTERS)
            self.op("subscribe", H(f), r.choice([0, 1, 1, 2]))
            self.subs.add(f)
            if f in NAMES:
                self.registered.add(f)
        elif k < 0.33 and self.usepredef:
            n, i = r.choice(PREDEF)
            self.op("subscribepre", i, r.choice([0, 1, 2]))
            self.subs.add(n)
        elif k < 0.38 and self.subs:
            f = r.choice(sorted(self.subs))
            if f not in [p[0] for p in PREDEF]:
                self.op("unsubscribe", H(f))
            else:
                self.op("unsubscribepre", dict(PREDEF)[f])
            self.subs.discard(f)
        elif k < 0.58:
            pool = sorted(self.registered) + SHORT
            if r.random() < 0.08:
                pool = [b'never/registered']
            self.op(r.choice(["publish", "publish", "publish", "publishr"]), H(r.choice(pool)), r.choice([0, 1, 2]), H(self.payload()))
        elif k < 0.63 and self.usepredef:
            self.op(r.choice(["publishpre", "publishpre", "publishprer"]), r.choice(PREDEF)[1], r.choice([0, 1, 2]), H(self.payload()))
        elif k < 0.67:
            self.op("ping")
        elif k < 0.85:
            self.op("inject", H(self.some_topic()), r.choice([0, 1, 2]), H(self.payload()))
        else:
            t = self.fresh_topic() if r.random() < 0.7 else self.some_topic()
            self.op("burst", H(t), r.choice([0, 1, 2]), *[H(self.payload()) for _ in range(r.randint(2, 5))])

    def sleep_cycles(self):
        r = self.r
        for _ in range(r.randint(1, 3)):
            if r.random() < 0.7:
                self.op("sleepinject", 1, H(self.some_topic()), r.choice([0, 1, 2]), H(self.payload()))
            else:
                self.op("sleep", 1)
            if r.random() < 0.25:
                self.op("inject", H(self.some_topic()), r.choice([0, 1]), H(self.payload()))
            if r.random() < 0.3:
                self.op("ping")     # an awake client may ping: the gateway answers as for a wake-up
        self.op("connect")

    def gen(self):
        r = self.r
        self.op("connect")
        self.state = "active"
        nops = r.randint(4, 14)
        slept = 0
        for _ in range(nops):
            if self.profile == "sleep" and slept < 2 and r.random() < 0.3 or self.profile == "mix" and slept < 1 and r.random() < 0.07:
                self.sleep_cycles()
                slept += 1
            else:
                self.active_op()
        if self.profile == "longsleep":
            # a message on a topic the client has no ID for, arriving early in a sleep that outlasts
            # the gateway's retry budget for its REGISTER
            self.op("subscribe", H(b'a/#'), 1)
            self.newtopics += 1
            self.op("sleepinject", 3, H(b'a/late%d' % self.newtopics), 1, H(self.payload()))
            self.op("connect")
        if r.random() < 0.85:
            self.op("disconnect")
        return self.ops


def main():
    seed, n, profile = int(sys.argv[1]), int(sys.argv[2]), sys.argv[3]
    r = random.Random("%d/%s/system" % (seed, profile))
    for i in range(n):
        cid = r.choice([b'c1', b'c2'])
        g = G(r, cid, profile)
        ops = g.gen()
        predef = ",".join("%s:%d:%s" % (H(c), i2, H(nm)) for c in [b'c1', b'*'] for nm, i2 in PREDEF) if g.usepredef else "-"
        print("case y%d-%d-%s cid=%s ka=30 rd=500 rc=3 predef=%s" % (seed, i, profile, H(cid), predef))
        for o in ops:
            print(o)


if __name__ == "__main__":
    main()
