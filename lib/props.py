"""Property table for /verif/check: which suites decide which property, which model/implementation
disagreements concern it (the projection of DESIGN.md section 2.6), and the trusted base."""

TB_COMMON = [
    "Lean 4.33.0 kernel; axioms per theorem as listed under coverage.theorems (subset of propext, Classical.choice, Quot.sound)",
    "/verif/factgen (go/ast constant and dispatch-table extractor) regenerating Bisquitt/Gen/Facts.lean on every run",
    "the Go correspondence harness under /verif/harness (compiled into the repository's packages with -overlay, build tag verif) and its generators",
    "the compiled Lean driver `bisq` (only runs the model and the monitors; no theorem depends on it)",
]

SUITES = {
    "_overlay": {
        "packets1/zz_verif_canon.go": "packets1_canon.go",
        "packets1/zz_verif_drv_test.go": "packets1_drv_test.go",
        "topics/zz_verif_drv_test.go": "topics_drv_test.go",
        "transactions/zz_verif_drv_test.go": "transactions_drv_test.go",
        "transactions/zz_verif_store_test.go": "transactions_store_test.go",
        "util/zz_verif_drv_test.go": "util_drv_test.go",
        "client/zz_verif_match_test.go": "client_match_test.go",
    },
    "codec": {"pkg": "./packets1/", "run": "TestVerifCodec$", "driver": "codec", "timeout": "30m"},
    "topics": {"pkg": "./topics/", "run": "TestVerifTopics$", "driver": "topics", "timeout": "10m"},
    "tx": {"pkg": "./transactions/", "run": "TestVerifTx$", "driver": "tx", "timeout": "20m"},
    "store": {"pkg": "./transactions/", "run": "TestVerifStore$", "driver": "store", "timeout": "10m"},
    "idseq": {"pkg": "./util/", "run": "TestVerifIDSeq$", "driver": "idseq", "timeout": "10m"},
    "match": {"pkg": "./client/", "run": "TestVerifMatch$", "driver": "match", "timeout": "20m"},
}


def _codec_rel(kinds):
    def f(line):
        parts = line.split()
        return len(parts) > 2 and parts[1] == "codec" and parts[2] in kinds
    return f


PROPS = {
    "C20": {
        "level_text": 'Lean theorem decode_total (for all byte strings the model of ReadPacket never panics), model tied to the code by differential execution of the real decoder on exhaustive short and structured datagrams; a panic of the real decoder is reported with the datagram as replay',
        "technique": 'Lean 4 theorem over a hand-written model + differential correspondence',
        "suites": ["codec"],
        # C20 is about crashes only: a disagreement matters iff one side panics
        "relevant": lambda line: line.startswith("DIFF codec") and "PANIC" in line,
        "rule": "datagrams: all of length 0-2, length 3 for 8 first bytes (all 16.8M + long-header length 4 in thorough), "
                "every valid packet of all 28 types truncated/extended/bit-flipped/re-headed, AUTH method-length edges, noise; "
                "each decoded by the real ReadPacket (recover()ed) and by the Lean model; every line is a distinct input",
        "trusted_base": TB_COMMON + ["model of ReadPacket/Unpack in Bisquitt/Model/Wire.lean (hand-written, tied by the codec suite)"],
        "assumptions": ["Go slices are bounds-checked against length in the model (the code may read up to capacity): the model panics at least as often as the code",
                        "a datagram is at most MaxPacketLen bytes (the receive buffer size)"],
        "explanation": "theorem Bisquitt.decode_total: for ALL byte strings the model of ReadPacket returns ok or err, never panic; "
                       "tie: the real decoder and the model agree on every generated datagram",
    },
    "C21": {
        "level_text": 'Lean theorems c21_roundtrip / c21_lengthField / c21_form for all Legal packets of all 28 types and c21_short_* for all 16-bit IDs; tie: real Pack/ReadPacket vs model encode/decode on generated packets',
        "technique": 'Lean 4 theorem over a hand-written model + differential correspondence',
        "suites": ["codec"],
        # C21 speaks about legal packets only: disagreements on illegal ones (e.g. 70000-byte payloads) do not concern it
        "relevant": lambda line: _codec_rel({"E", "E-decode", "S", "N"})(line) and "legal=0" not in line,
        "rule": "packets built with the repo's NewXxx constructors for all 28 types, field values over full ranges, lengths concentrated at "
                "0,1,245-258,7167-7169,8183-8192 and >65535; real Pack then real ReadPacket vs model encode/decode; short-topic IDs and names",
        "trusted_base": TB_COMMON + ["model of Pack/Unpack/computeLength/Header in Bisquitt/Model/Wire.lean"],
        "assumptions": ["Spec.Legal is the reading of 'field values in their legal ranges' (DESIGN.md C21)"],
        "explanation": "theorems c21_roundtrip, c21_lengthField, c21_form, c21_short_name, c21_short_id for ALL Legal packets / all 16-bit IDs",
    },
    "C22": {
        "level_text": 'Lean theorem c22_fields (decode bs = ok p -> independent positional reader gives p) for all byte strings; the re-encoding half is decided by the Spec.normBody monitor on every datagram the real decoder accepts (theorem for that half pending)',
        "technique": 'Lean 4 theorem over a hand-written model + differential correspondence + monitor',
        "suites": ["codec"],
        # C22 speaks about datagrams that decode successfully: a disagreement matters iff one side says OK
        "relevant": lambda line: (line.startswith("DIFF codec D") or line.startswith("DIFF codec E-decode"))
        and ("impl=[OK" in line or "model=[OK" in line),
        "rule": "same datagram stream as C20; every datagram the real decoder accepts is compared field by field with the independent "
                "positional reader Spec.refParse and its real re-Pack with Spec.normBody",
        "trusted_base": TB_COMMON + ["Spec.refParse / Spec.normBody as the statement of 'specified byte positions' and 'allowed differences'"],
        "assumptions": ["a datagram is at most MaxPacketLen bytes"],
        "explanation": "theorem c22_fields: decode bs = ok p -> refParse bs = some p for ALL byte strings; re-encoding half checked by monitor on the implementation",
    },
    "C05": {
        "level_text": 'Lean theorems c05_name and c05_id_sound/c05_readback for all predefined-topic configurations, client IDs and names; tie: the real PredefinedTopics methods vs the model on all 729 small configurations with every query plus random larger ones',
        "technique": 'Lean 4 theorem over a hand-written model + differential correspondence',
        "suites": ["topics"],
        "relevant": lambda line: line.startswith("DIFF topics name") or line.startswith("DIFF topics id"),
        "rule": "real PredefinedTopics built by Add sequences: ALL 729 configurations over clients {c1,c2,*} x IDs {1,2} x names {x,y} with every "
                "GetTopicName/GetTopicID query (each GetTopicID asked 6 times to sample map order), the repo's testdata file, and random larger "
                "configurations with overwrites; every distinct answer is a line",
        "trusted_base": TB_COMMON + ["association-list model of Go maps in Bisquitt/Model/Topics.lean (first binding is live)",
                                     "Spec.specName as the statement of 'client-specific entry, otherwise the * entry'"],
        "assumptions": ["Go map iteration may return any matching entry: the model returns the set of admissible answers"],
        "explanation": "theorems c05_name (lookup by ID = client entry else * entry) and c05_id_sound/c05_readback (every admissible GetTopicID answer reads back as the name) for ALL configurations",
    },
    "C18": {
        "level_text": "Lean theorem c18: for every sequence of Success/Fail/Proceed/cancel events and timer callbacks of ANY generation ever armed (Stop() assumed never to help) the completion callback runs exactly once, Err() never changes after Done, no retry callback starts and no timer is armed after Done; the method-atomic granularity is justified by the regenerated lock facts (c18_lock_*). Tie: real RetryTransaction/TimedTransaction under a virtual clock vs the model (exact logs), forced interleavings with a blocked callback in real time, and an immediate-timer stress loop",
        "technique": "Lean 4 invariant proof over an adversarial-timer model + regenerated lock facts + differential correspondence under testing/synctest",
        "suites": ["tx"],
        "relevant": lambda line: line.startswith("DIFF tx"),
        "rule": "scripts of timed Proceed/Success/Fail/cancel operations on the real RetryTransaction/TimedTransaction under testing/synctest (all N in 0..6 x D in {1,10,1000,10000} with an operation at every multiple and off-multiple, random scripts, zero delays), 16 forced interleavings (callback blocked inside timeout() while Success/Fail/Proceed/cancel run) and 220000 immediate-timer constructions in real time; each case is one script",
        "trusted_base": TB_COMMON + ["Bisquitt/Model/Tx.lean (method-atomic model; adversarial timers)", "Go's sync.Mutex and testing/synctest's virtual clock",
                                     "the sleepTransaction of the client library is covered by the client suite, not here"],
        "assumptions": ["methods that hold the mutex for their whole body are atomic with respect to each other (sync.Mutex); State/Data reads by embedding code outside the mutex are not covered"],
        "explanation": "theorems c18, c18_done_monotone, base_done_stable, c18_lock_base, c18_lock_retry",
    },
    "C19": {
        "level_text": "Lean theorems c19_retry (callbacks exactly at t0+k*D for k=1..N, then noMoreRetries at t0+(N+1)*D, for ALL N, D, t0), c19_proceed_resets, c19_timed, c19_timed_completed over the timed model; tie: exact equality of virtual-clock logs of the real transactions with the model",
        "technique": "Lean 4 induction over a timed model + differential correspondence under testing/synctest (exact virtual timestamps)",
        "suites": ["tx"],
        "relevant": lambda line: line.startswith("DIFF tx X"),
        "rule": "same scripts as C18 (mode 1): every N in 0..6, D in {1,10,1000,10000}, progress/ack at every multiple and off-multiple of D, random scripts, zero delays; compared line by line including timestamps",
        "trusted_base": TB_COMMON + ["Bisquitt/Model/Tx.lean (timed semantics)", "testing/synctest as an exact virtual clock"],
        "assumptions": ["operations never coincide with a timer deadline to the millisecond (ties belong to C18)"],
        "explanation": "theorems runUntil_budget, c19_retry, c19_retry_quiet, c19_proceed_resets, c19_timed, c19_timed_completed",
    },
    "C29": {
        "level_text": "Lean theorems c29_idseq / c29_cycle_value / c29_overflow / c29_distinct for EVERY range min<=max and any number of calls, store_* lemmas (two independent finite maps), and the regenerated lock facts c29_lock_*; tie: the real IDSequence on all small ranges at the boundaries of uint16, the ranges the code uses across a wrap, random ranges, and concurrent runs (16 goroutines) whose result multiset must equal the sequential prefix; the real TransactionStore on random and concurrent op sequences",
        "technique": "Lean 4 induction + regenerated lock facts + differential correspondence (sequential and concurrent)",
        "suites": ["idseq", "store"],
        "relevant": lambda line: line.startswith("DIFF idseq") or line.startswith("DIFF store"),
        "rule": "IDSequence: every range of width<=7 at 17 positions incl. 65528..65535 for 3 cycles, 1..0xFFFE / 1..0xFFFF / 0..0xFFFF across the wrap, random ranges; 5 concurrent configurations x 10 repetitions; TransactionStore: 500 random sequential op lists and 20x8 concurrent per-owner histories",
        "trusted_base": TB_COMMON + ["Bisquitt/Model/IdSeq.lean", "Go's sync.Mutex / sync.RWMutex"],
        "assumptions": ["a method whose body is Lock(); defer Unlock(); ... is atomic with respect to the others (sync.Mutex semantics)"],
        "explanation": "theorems c29_idseq, c29_idseq_fresh, c29_cycle_value, c29_overflow, c29_distinct, store_*, c29_lock_idsequence, c29_lock_store",
    },
    "C27": {
        "level_text": "Lean theorem c27_match: the client's recursive match equals the positional statement of MQTT 3.1.1 topic-filter matching (specMatch) for ALL filters and topics; tie: the real split/match on every filter x topic pair over {a,b,/,+,#} up to length 4 (5 in thorough). The subscribe/unsubscribe-history half of C27 is decided by the client suite (when built) ",
        "technique": "Lean 4 structural induction + exhaustive differential correspondence over a small alphabet",
        "suites": ["match"],
        "relevant": lambda line: line.startswith("DIFF match"),
        "rule": "all 781 x 781 (filter, topic) pairs over the alphabet {a,b,/,+,#} with length <= 4, each evaluated by the real split+match and by the model; exhaustive for that space",
        "trusted_base": TB_COMMON + ["Bisquitt/Model/Match.lean", "Spec/Match.lean specMatch as the reading of MQTT 3.1.1 section 4.7 ($-topics are not part of the statement)"],
        "assumptions": [],
        "explanation": "theorem c27_match (all filters/topics); exhaustive correspondence on the small alphabet",
    },
}
