"""Property table for /verif/check: which suites decide which property, which model/implementation
disagreements concern it (the projection of DESIGN.md section 2.6), and the trusted base."""

TB_COMMON = [
    "Lean 4.33.0 kernel; axioms per theorem as listed under coverage.theorems (subset of propext, Classical.choice, Quot.sound)",
    "/verif/factgen (go/ast constant and dispatch-table extractor) regenerating Bisquitt/Gen/Facts.lean on every run",
    "the Go correspondence harness under /verif/harness (compiled into the repository's packages with -overlay, build tag verif) and its generators",
    "the compiled Lean driver `bisq` (only runs the model and the monitors; no theorem depends on it)",
]

SUITES = {
    "_overlay": {
        "packets1/zz_verif_canon.go": "packets1_canon.go",
        "packets1/zz_verif_drv_test.go": "packets1_drv_test.go",
        "topics/zz_verif_drv_test.go": "topics_drv_test.go",
        "transactions/zz_verif_drv_test.go": "transactions_drv_test.go",
        "transactions/zz_verif_store_test.go": "transactions_store_test.go",
        "util/zz_verif_drv_test.go": "util_drv_test.go",
        "client/zz_verif_match_test.go": "client_match_test.go",
        "gateway/zz_verif_drv_test.go": "gateway_drv_test.go",
        "client/zz_verif_client_test.go": "client_drv_test.go",
        "cmd/bisquitt/zz_verif_cli_test.go": "cli_drv_test.go",
        "cmd/bisquitt-pub/zz_verif_cli_test.go": "cli_drv_test.go",
        "cmd/bisquitt-sub/zz_verif_cli_test.go": "cli_drv_test.go",
        "gateway/zz_verif_system_test.go": "system_drv_test.go",
    },
    "codec": {"pkg": "./packets1/", "run": "TestVerifCodec$", "driver": "codec", "timeout": "30m"},
    "topics": {"pkg": "./topics/", "run": "TestVerifTopics$", "driver": "topics", "timeout": "10m"},
    "tx": {"pkg": "./transactions/", "run": "TestVerifTx$", "driver": "tx", "timeout": "20m"},
    "store": {"pkg": "./transactions/", "run": "TestVerifStore$", "driver": "store", "timeout": "10m"},
    "idseq": {"pkg": "./util/", "run": "TestVerifIDSeq$", "driver": "idseq", "timeout": "10m"},
    "match": {"pkg": "./client/", "run": "TestVerifMatch$", "driver": "match", "timeout": "20m"},
    "gateway": {"pkg": "./gateway/", "run": "TestVerifGateway$", "driver": "gateway", "timeout": "40m",
                "generator": "gen_gateway.py", "gen": lambda prop: GW_PROFILES.get(prop, GW_PROFILES["*"]),
                "case_prefix": "case "},
    "client": {"pkg": "./client/", "run": "TestVerifClient$", "driver": "client", "timeout": "40m",
               "generator": "gen_client.py", "gen": lambda prop: CL_PROFILES.get(prop, CL_PROFILES["*"]), "case_prefix": "case "},
    # the real client + the real gateway (ListenAndServe, UDP loopback) + a conforming broker (TCP loopback): real time, 8 cases at a time
    "system": {"pkg": "./gateway/", "run": "TestVerifSystem$", "driver": "system", "timeout": "40m",
               "generator": "gen_system.py", "gen": lambda prop: [("mix", 45, 300), ("sleep", 25, 180), ("longsleep", 2, 6)],
               "case_prefix": "case "},
    "cli": {"pkg": ["./cmd/bisquitt/", "./cmd/bisquitt-pub/", "./cmd/bisquitt-sub/"], "run": "TestVerifCLI$", "driver": "cli",
            "timeout": "30m", "parts": ["sub", "pub", "gw"], "generator": "gen_cli.py",
            "gen": lambda prop: ([("sec", 8, 8), ("mix", 25, 300)] if prop == "C31" else
                                 [("iso", 4, 4), ("mix", 5, 40)] if prop == "C15" else [("mix", 30, 400), ("sec", 8, 8)]),
            "case_prefix": "R ", "prepend_corpus": True},
}

# (profile, cases in the quick tier, cases in the thorough tier) per property: every property sees
# the general mix; the profiles that stress its own part of the handler get more cases
CL_PROFILES = {
    "*": [("mix", 500, 6000), ("loss", 200, 2000), ("sleep", 150, 1500), ("keepalive", 150, 1500), ("collide", 150, 1500)],
    "C17": [("mix", 400, 5000), ("loss", 600, 6000), ("collide", 150, 1500)],
    "C16": [("mix", 300, 3000), ("loss", 500, 5000), ("collide", 100, 1000)],
    "C33": [("mix", 300, 3000), ("keepalive", 700, 7000), ("sleep", 200, 2000)],
    "C06": [("mix", 300, 3000), ("collide", 800, 8000)],
    "C28": [("mix", 400, 4000), ("loss", 300, 3000), ("sleep", 300, 3000), ("keepalive", 200, 2000)],
}

GW_PROFILES = {
    "*": [("mix", 500, 5000), ("connect", 200, 2000), ("ids", 150, 1500), ("long", 100, 1000), ("collide", 150, 1500)],
    "C01": [("mix", 500, 5000), ("predef", 300, 3000), ("ids", 200, 2000), ("long", 100, 1000)],
    "C02": [("mix", 500, 5000), ("predef", 400, 4000), ("ids", 200, 2000), ("long", 100, 1000)],
    "C05": [("predef", 800, 8000), ("mix", 200, 2000)],
    "C32": [("predef", 800, 8000), ("mix", 200, 2000)],
    "C04": [("mix", 300, 3000), ("ids", 600, 6000), ("connect", 100, 1000)],
    "C06": [("mix", 300, 3000), ("collide", 800, 8000)],
    "C07": [("mix", 400, 4000), ("connect", 600, 6000)],
    "C08": [("mix", 300, 3000), ("connect", 800, 8000)],
    "C09": [("mix", 300, 3000), ("connect", 800, 8000)],
    "C10": [("mix", 300, 3000), ("connect", 500, 5000), ("long", 200, 2000)],
    "C11": [("mix", 500, 5000), ("long", 500, 5000)],
    "C12": [("keepalive", 600, 6000), ("mix", 300, 3000), ("long", 200, 2000)],
    "C34": [("keepalive", 600, 6000), ("mix", 300, 3000), ("long", 200, 2000)],
}


def _codec_rel(kinds):
    def f(line):
        parts = line.split()
        return len(parts) > 2 and parts[1] == "codec" and parts[2] in kinds
    return f


PROPS = {
    "C20": {
        "level_text": 'Lean theorem decode_total (for all byte strings the model of ReadPacket never panics), model tied to the code by differential execution of the real decoder on exhaustive short and structured datagrams; a panic of the real decoder is reported with the datagram as replay',
        "technique": 'Lean 4 theorem over a hand-written model + differential correspondence',
        "suites": ["codec"],
        # C20 is about crashes only: a disagreement matters iff one side panics
        "relevant": lambda line: line.startswith("DIFF codec") and "PANIC" in line,
        "rule": "datagrams: all of length 0-2, length 3 for 8 first bytes (all 16.8M + long-header length 4 in thorough), "
                "every valid packet of all 28 types truncated/extended/bit-flipped/re-headed, AUTH method-length edges, noise; "
                "each decoded by the real ReadPacket (recover()ed) and by the Lean model; every line is a distinct input",
        "trusted_base": TB_COMMON + ["model of ReadPacket/Unpack in Bisquitt/Model/Wire.lean (hand-written, tied by the codec suite)"],
        "assumptions": ["Go slices are bounds-checked against length in the model (the code may read up to capacity): the model panics at least as often as the code",
                        "a datagram is at most MaxPacketLen bytes (the receive buffer size)"],
        "explanation": "theorem Bisquitt.decode_total: for ALL byte strings the model of ReadPacket returns ok or err, never panic; "
                       "tie: the real decoder and the model agree on every generated datagram",
    },
    "C21": {
        "level_text": 'Lean theorems c21_roundtrip / c21_lengthField / c21_form for all Legal packets of all 28 types and c21_short_* for all 16-bit IDs; tie: real Pack/ReadPacket vs model encode/decode on generated packets',
        "technique": 'Lean 4 theorem over a hand-written model + differential correspondence',
        "suites": ["codec"],
        # C21 speaks about legal packets only: disagreements on illegal ones (e.g. 70000-byte payloads) do not concern it
        "relevant": lambda line: _codec_rel({"E", "E-decode", "S", "N"})(line) and "legal=0" not in line,
        "rule": "packets built with the repo's NewXxx constructors for all 28 types, field values over full ranges, lengths concentrated at "
                "0,1,245-258,7167-7169,8183-8192 and >65535; real Pack then real ReadPacket vs model encode/decode; short-topic IDs and names",
        "trusted_base": TB_COMMON + ["model of Pack/Unpack/computeLength/Header in Bisquitt/Model/Wire.lean"],
        "assumptions": ["Spec.Legal is the reading of 'field values in their legal ranges' (DESIGN.md C21)"],
        "explanation": "theorems c21_roundtrip, c21_lengthField, c21_form, c21_short_name, c21_short_id for ALL Legal packets / all 16-bit IDs",
    },
    "C22": {
        "level_text": 'Lean theorem c22_fields (decode bs = ok p -> independent positional reader gives p) for all byte strings; the re-encoding half is decided by the Spec.normBody monitor on every datagram the real decoder accepts (theorem for that half pending)',
        "technique": 'Lean 4 theorem over a hand-written model + differential correspondence + monitor',
        "suites": ["codec"],
        # C22 speaks about datagrams that decode successfully: a disagreement matters iff one side says OK
        "relevant": lambda line: (line.startswith("DIFF codec D") or line.startswith("DIFF codec E-decode"))
        and ("impl=[OK" in line or "model=[OK" in line),
        "rule": "same datagram stream as C20; every datagram the real decoder accepts is compared field by field with the independent "
                "positional reader Spec.refParse and its real re-Pack with Spec.normBody",
        "trusted_base": TB_COMMON + ["Spec.refParse / Spec.normBody as the statement of 'specified byte positions' and 'allowed differences'"],
        "assumptions": ["a datagram is at most MaxPacketLen bytes"],
        "explanation": "theorem c22_fields: decode bs = ok p -> refParse bs = some p for ALL byte strings; re-encoding half checked by monitor on the implementation",
    },
    "C05": {
        "level_text": 'Lean theorems c05_name and c05_id_sound/c05_readback for all predefined-topic configurations, client IDs and names; tie: the real PredefinedTopics methods vs the model on all 729 small configurations with every query plus random larger ones',
        "technique": 'Lean 4 theorem over a hand-written model + differential correspondence',
        "suites": ["topics"],
        "relevant": lambda line: line.startswith("DIFF topics name") or line.startswith("DIFF topics id"),
        "rule": "real PredefinedTopics built by Add sequences: ALL 729 configurations over clients {c1,c2,*} x IDs {1,2} x names {x,y} with every "
                "GetTopicName/GetTopicID query (each GetTopicID asked 6 times to sample map order), the repo's testdata file, and random larger "
                "configurations with overwrites; every distinct answer is a line",
        "trusted_base": TB_COMMON + ["association-list model of Go maps in Bisquitt/Model/Topics.lean (first binding is live)",
                                     "Spec.specName as the statement of 'client-specific entry, otherwise the * entry'"],
        "assumptions": ["Go map iteration may return any matching entry: the model returns the set of admissible answers"],
        "explanation": "theorems c05_name (lookup by ID = client entry else * entry) and c05_id_sound/c05_readback (every admissible GetTopicID answer reads back as the name) for ALL configurations",
    },
    "C18": {
        "level_text": "Lean theorem c18: for every sequence of Success/Fail/Proceed/cancel events and timer callbacks of ANY generation ever armed (Stop() assumed never to help) the completion callback runs exactly once, Err() never changes after Done, no retry callback starts and no timer is armed after Done; the method-atomic granularity is justified by the regenerated lock facts (c18_lock_*). Tie: real RetryTransaction/TimedTransaction under a virtual clock vs the model (exact logs), forced interleavings with a blocked callback in real time, and an immediate-timer stress loop",
        "technique": "Lean 4 invariant proof over an adversarial-timer model + regenerated lock facts + differential correspondence under testing/synctest",
        "suites": ["tx"],
        "relevant": lambda line: line.startswith("DIFF tx"),
        "rule": "scripts of timed Proceed/Success/Fail/cancel operations on the real RetryTransaction/TimedTransaction under testing/synctest (all N in 0..6 x D in {1,10,1000,10000} with an operation at every multiple and off-multiple, random scripts, zero delays), 16 forced interleavings (callback blocked inside timeout() while Success/Fail/Proceed/cancel run) and 220000 immediate-timer constructions in real time; each case is one script",
        "trusted_base": TB_COMMON + ["Bisquitt/Model/Tx.lean (method-atomic model; adversarial timers)", "Go's sync.Mutex and testing/synctest's virtual clock",
                                     "the sleepTransaction of the client library is covered by the client suite, not here"],
        "assumptions": ["methods that hold the mutex for their whole body are atomic with respect to each other (sync.Mutex); State/Data reads by embedding code outside the mutex are not covered"],
        "explanation": "theorems c18, c18_done_monotone, base_done_stable, c18_lock_base, c18_lock_retry",
    },
    "C19": {
        "level_text": "Lean theorems c19_retry (callbacks exactly at t0+k*D for k=1..N, then noMoreRetries at t0+(N+1)*D, for ALL N, D, t0), c19_proceed_resets, c19_timed, c19_timed_completed over the timed model; tie: exact equality of virtual-clock logs of the real transactions with the model",
        "technique": "Lean 4 induction over a timed model + differential correspondence under testing/synctest (exact virtual timestamps)",
        "suites": ["tx"],
        "relevant": lambda line: line.startswith("DIFF tx X"),
        "rule": "same scripts as C18 (mode 1): every N in 0..6, D in {1,10,1000,10000}, progress/ack at every multiple and off-multiple of D, random scripts, zero delays; compared line by line including timestamps",
        "trusted_base": TB_COMMON + ["Bisquitt/Model/Tx.lean (timed semantics)", "testing/synctest as an exact virtual clock"],
        "assumptions": ["operations never coincide with a timer deadline to the millisecond (ties belong to C18)"],
        "explanation": "theorems runUntil_budget, c19_retry, c19_retry_quiet, c19_proceed_resets, c19_timed, c19_timed_completed",
    },
    "C29": {
        "level_text": "Lean theorems c29_idseq / c29_cycle_value / c29_overflow / c29_distinct for EVERY range min<=max and any number of calls, store_* lemmas (two independent finite maps), and the regenerated lock facts c29_lock_*; tie: the real IDSequence on all small ranges at the boundaries of uint16, the ranges the code uses across a wrap, random ranges, and concurrent runs (16 goroutines) whose result multiset must equal the sequential prefix; the real TransactionStore on random and concurrent op sequences",
        "technique": "Lean 4 induction + regenerated lock facts + differential correspondence (sequential and concurrent)",
        "suites": ["idseq", "store"],
        "relevant": lambda line: line.startswith("DIFF idseq") or line.startswith("DIFF store"),
        "rule": "IDSequence: every range of width<=7 at 17 positions incl. 65528..65535 for 3 cycles, 1..0xFFFE / 1..0xFFFF / 0..0xFFFF across the wrap, random ranges; 5 concurrent configurations x 10 repetitions; TransactionStore: 500 random sequential op lists and 20x8 concurrent per-owner histories",
        "trusted_base": TB_COMMON + ["Bisquitt/Model/IdSeq.lean", "Go's sync.Mutex / sync.RWMutex"],
        "assumptions": ["a method whose body is Lock(); defer Unlock(); ... is atomic with respect to the others (sync.Mutex semantics)"],
        "explanation": "theorems c29_idseq, c29_idseq_fresh, c29_cycle_value, c29_overflow, c29_distinct, store_*, c29_lock_idsequence, c29_lock_store",
    },
    "C27": {
        "level_text": "Lean theorem c27_match: the client's recursive match equals the positional statement of MQTT 3.1.1 topic-filter matching (specMatch) for ALL filters and topics; tie: the real split/match on every filter x topic pair over {a,b,/,+,#} up to length 4 (5 in thorough). The subscribe/unsubscribe-history half of C27 is decided by the client suite (when built) ",
        "technique": "Lean 4 structural induction + exhaustive differential correspondence over a small alphabet",
        "suites": ["match"],
        "relevant": lambda line: line.startswith("DIFF match"),
        "rule": "all 781 x 781 (filter, topic) pairs over the alphabet {a,b,/,+,#} with length <= 4, each evaluated by the real split+match and by the model; exhaustive for that space",
        "trusted_base": TB_COMMON + ["Bisquitt/Model/Match.lean", "Spec/Match.lean specMatch as the reading of MQTT 3.1.1 section 4.7 ($-topics are not part of the statement)"],
        "assumptions": [],
        "explanation": "theorem c27_match (all filters/topics); exhaustive correspondence on the small alphabet",
    },
}

TB_GW = TB_COMMON + [
    "Bisquitt/Model/Gateway.lean: hand-written model of one gateway session (handler1.go and the *_transaction.go files) with atomic-handler "
    "semantics: one call of handleMqttSn / handleMqtt / one timer callback is one step; tied to the code by the gateway suite "
    "(exact equality of timestamped outputs under testing/synctest, plus state / registry / sleep-buffer samples after every event)",
    "the harness' fake datagram connection and fake broker connection (gateway_drv_test.go) and testing/synctest's virtual clock",
    "paho's MQTT packet codec (the harness observes the structs the handler passes to Write, and feeds structs to the handler's reader)",
]
GW_RULE = ("sessions generated by lib/gen_gateway.py from one seed: scripts of timed events (client datagrams of every type incl. malformed ones, "
           "broker packets, broker EOF/garbage, shutdown, ticks) over configurations (auth on/off, credentials, predefined topics, retry budget, "
           "topic-ID range); each session is run on the real handler under testing/synctest and on the model; a case is non-trivial when it has at "
           "least one event; the corpus of past witnesses (corpus/gateway.corpus) runs first; every case is distinct by construction (seeded)")


def gw(prop, level_text, explanation, technique="Lean 4 theorem over the hand-written gateway model + differential correspondence + trace monitor",
       level="proof", assumptions=None, suites=None, extra_relevant=None):
    pre = "DIFF gateway-%s " % prop
    return {
        "level": level,
        "level_text": level_text,
        "technique": technique,
        "suites": suites or ["gateway"],
        "relevant": (lambda line: line.startswith(pre) or (extra_relevant(line) if extra_relevant else False)),
        "rule": GW_RULE,
        "trusted_base": TB_GW,
        "assumptions": (assumptions or []) + [
            "atomic handlers: the interleaving of handler goroutines inside one handler call is not modelled (the mutexes of handler1 are "
            "covered by the lock facts where a property depends on them)",
            "the session-end window: outputs within 100 ms after the session context is cancelled are compared as a set (goroutine shutdown order)"],
        "explanation": explanation,
    }


PROPS.update({
    "C01": gw("C01",
              "Lean theorems c01_forward / c01_name / c01_drop about the model of the client-PUBLISH handler for ALL states and field values (exactly one MQTT "
              "PUBLISH with the same payload/flags/QoS/message ID and the name the topic ID denotes; nothing forwarded otherwise); ALL RUNS: "
              "c01_publish_only_for_publish_datagram (in ANY reachable state ANY event that is not a PUBLISH datagram - other datagrams, broker packets, every timer "
              "and retransmission, EOF, shutdown, the session end - writes no MQTT PUBLISH), c01_at_most_one_per_datagram, c01_publishes_bounded (frame F1 carried "
              "through every model function, Lemmas/GwPub.lean); which name a topic ID denotes over a whole session ('registered in this session') is checked by the "
              "monitor Spec.c01 on every implementation trace; tie: gateway suite",
              "theorems c01_forward, c01_name, c01_drop (one-step, all states) + c01_publish_only_for_publish_datagram / c01_at_most_one_per_datagram / "
              "c01_publishes_bounded (all runs); monitor Spec.c01 on implementation traces (whole sessions)"),
    "C14": gw("C14",
              "Lean theorem c14: from ANY reachable state of the gateway model, handling ANY event other than a datagram decoding to a plain DISCONNECT "
              "(incl. all timers firing on the way and the session end) emits no MQTT DISCONNECT; c14_end: the session end closes the broker connection; "
              "monitor Spec.c14 on every implementation trace; tie: gateway suite",
              "theorems c14 (all runs, all events), c14_end; invariant WF carried through every model function (Lemmas/GwEmits, GwSteps*)"),
    "C23": gw("C23",
              "Lean theorem c23: in EVERY run of the gateway model every datagram emitted is at most 8192 bytes, has a length field equal to its size and decodes "
              "as a packet of a gateway-to-client type (via the per-site permissions + the C21 codec theorems); monitor Spec.c23 on every datagram the real "
              "gateway sends; the client-library half is decided by the client suite (when built)",
              "theorems c23, datagramOk_of_snOk, sites_c23 (all runs), c23_emission_sites (the regenerated inventory of the code's client-link emission sites is the "
              "reviewed one the model was written against); monitor Spec.c23 on implementation traces"),
    "C24": gw("C24",
              "Lean theorem c24 / c24_monitor: in EVERY run of the gateway model every MQTT packet emitted satisfies Spec.valid311 (QoS 0-2, PUBLISH topic non-empty "
              "without wildcards, filters non-empty, CONNECT will flag iff non-empty will topic, will QoS <= 2); monitor Spec.c24 on every packet the real "
              "gateway writes to the broker; tie: gateway suite",
              "theorems c24, c24_monitor, sites_c24 (all runs), c24_emission_sites (the regenerated inventory of the code's broker-link emission sites is the reviewed "
              "one the model was written against); monitor Spec.c24 on implementation traces"),
})

PROPS.update({
    "C03": gw("C03",
              "Lean theorems c03_sn_simple / c03_mq_simple / c03_subscribe / c03_unsubscribe / c03_filter_* / c03_suback about the model's dispatchers for ALL states "
              "and field values (one output per control packet, same message ID, resolved filter and requested QoS; SUBACK accepted iff broker code 0-2 with granted "
              "QoS and the remembered topic ID; c03_own_ping_reply_swallowed: the PINGRESP of a ping of the gateway itself is not passed on); ALL RUNS: "
              "c03_subscribe_only_for_subscribe_datagram / c03_unsubscribe_only_for_unsubscribe_datagram / c03_pubrel_only_for_pubrel_datagram (in ANY reachable state an "
              "event that is not a datagram of that type - other datagrams, broker packets, every timer and retransmission, EOF, shutdown, the session end - writes no such "
              "packet to the broker) and c03_*_bounded (at most one per datagram over any run), via the generic frame FW w of Lemmas/GwWatch.lean; whole-session pairing "
              "(which message ID, which filter) checked by the monitor Spec.c03 on implementation traces; tie: gateway suite",
              "theorems c03_* (one-step, all states) + c03_*_only_for_*_datagram / c03_*_bounded (all runs); monitor Spec.c03 on implementation traces"),
    "C04": gw("C04",
              "Lean theorems about the topic-ID allocator of the model for ALL states: c04_allocs (any number of requests hands out strictly increasing, hence pairwise "
              "distinct, IDs inside the range), c04_not_predefined, c04_after_wrap + c04_exhausted_sticky (after a wrap everything is refused, for good), "
              "c04_refusal_codes; ALL RUNS: c04_never_reassigned (after ANY event sequence a TopicID bound to a name in the registry denotes that name at every later point of "
              "the session; invariant K over registry, reservations, allocator and pending REGISTER exchanges carried through every model function); the monitor Spec.c04 "
              "checks the same on registry samples after every event of every implementation trace; tie: gateway suite (the ids profile runs sessions with tiny ID ranges "
              "to exhaustion)",
              "theorems c04_allocs, c04_increasing, c04_not_predefined, c04_after_wrap, c04_exhausted_sticky, c04_refusal_codes, c04_never_reassigned (all runs); monitor Spec.c04",
              assumptions=["the gateway constructs the sequence with MinTopicID <= MaxTopicID (regenerated constants 1 and 0xFFFE); the theorem is for every such range"]),
    "C07": gw("C07",
              "Lean theorems c07_client_cannot_activate (no client datagram activates a disconnected session), c07_activation (only the broker's CONNACK 0 for the "
              "exchange awaiting it does), c07_connect_sent_* (that state is entered exactly when the CONNECT is sent), c07_illegal / c07_legal_when_disconnected "
              "(everything else ends the session, nothing forwarded) for ALL states and packets; ALL RUNS: c07_no_session_without_connack (after ANY sequence of timed events "
              "without the broker's CONNACK 0 - every client datagram, every other broker packet, every timer, EOF, shutdown - the session is still disconnected); the "
              "rest of the whole-session statement is checked by the monitor Spec.c07; tie: gateway suite",
              "theorems c07_* (one-step, all states and packets) + c07_no_session_without_connack (all runs); monitor Spec.c07 on implementation traces"),
    "C08": gw("C08",
              "Lean theorems c08_auth_enabled_waits, c08_plain / c08_plain_sent, c08_malformed, c08_unknown_method, c08_auth_disabled, c08_configured, c08_auth_ignored about "
              "the model's connect exchange for ALL states and inputs; ALL RUNS: c08_no_connect_without_auth (authentication enabled: after ANY sequence of timed events without an "
              "AUTH datagram no MQTT CONNECT has been written; invariant AllAwait carried through every model function, Lemmas/GwAuth.lean) and "
              "c08_configured_credentials_in_every_connect (authentication disabled: after ANY sequence of timed events, AUTH packets of any kind included, every MQTT CONNECT "
              "written carries exactly the configured credentials; invariant J / frame FC, Lemmas/GwCreds.lean); the rest of the whole-exchange "
              "statement is checked by the monitor Spec.c0809; tie: gateway suite (connect profile)",
              "theorems c08_* (one-step, all states) + two all-runs theorems; monitor Spec.c0809 (C08 rules) on implementation traces"),
    "C09": gw("C09",
              "Lean theorems c09_will_topicreq, c09_nowill, c09_willtopic(_ignored), c09_will_fields, c09_willmsg(_ignored), c09_one_connect, c09_connack(_ignored), "
              "c09_zero_keepalive about the model's connect exchange for ALL states and inputs; ALL RUNS: c09_connects_bounded (after ANY event sequence the number of MQTT "
              "CONNECT packets written is at most the number of CONNECT datagrams received: each exchange writes at most one and nothing else ever writes one; potential "
              "argument F9 / I9 carried through every model function, Lemmas/GwConnCount.lean); the order of the will exchange over a whole session is checked by the "
              "monitor Spec.c0809; tie: gateway suite (connect profile)",
              "theorems c09_* (one-step, all states) + c09_connects_bounded (all runs); monitor Spec.c0809 (C09 rules) on implementation traces"),
    "C10": gw("C10",
              "Lean theorems c10_deadline (timer at now + connectTransactionTimeout = 5000 ms, constant regenerated from the source), c10_timer_kept_* (no step of the "
              "exchange re-arms or stops it), c10_expire (expiry on an unfinished exchange cancels the session with the timeout error, C13 then closes the broker "
              "connection); ALL RUNS: c10_deadline_never_postponed (from ANY reachable state, after ANY further sequence of timed events an unfinished connect exchange "
              "is finished, or the session has ended, or the exchange still has exactly the deadline it had: component Kept of the frame F9, Lemmas/GwConnCount.lean); "
              "the real-time bound (timeout + poll interval) is measured on the real handler under the virtual clock by the monitor Spec.c10",
              "theorems c10_* (one-step) + c10_deadline_never_postponed (all runs); monitor Spec.c10 (virtual-clock deadline) on implementation traces",
              assumptions=["real-time bound measured under testing/synctest; the connection poll interval is the harness' fake connection's"]),
    "C11": gw("C11",
              "Lean theorems c11_asleep_silent, c11_flush, c11_wake (exactly the buffered packets, once each, in order, then PINGRESP; buffer empty; asleep again), "
              "c11_asleep_mq for ALL states; ALL RUNS: c11_asleep_runs_are_silent (from ANY state with a sleeping client, through ANY sequence of timed events other than the "
              "client's PINGREQ / CONNECT / DISCONNECT and the CONNACK of an unfinished connect exchange, incl. every timer firing on the way, no datagram is sent and the "
              "client stays asleep; from c11_silent_on_client_packets / _broker_packets / _timers for every event kind); what the queue holds is checked by the monitor "
              "Spec.c11 (every sleep cycle, sleep-buffer samples); tie: gateway suite",
              "theorems c11_* incl. c11_asleep_runs_are_silent (all runs); monitor Spec.c11 on implementation traces"),
    "C13": gw("C13",
              "Lean theorems c13_end (end emits DISCONNECT iff active/awake, the end marker and the broker close, stops all timers; once), c13_causes (shutdown, broker "
              "EOF/garbage, undecodable or illegal datagram cancel the session), c13_step_ends (the same step emits the end), c13_plain_disconnect; ALL RUNS: c13_step_reaches_ended + "
              "c13_ended_runs_are_silent (after its end a session emits nothing for ever, whatever arrives); bounded real "
              "time and goroutine exit are measured on the real handler (virtual clock, goroutine census) by the monitor Spec.c13",
              "theorems c13_*; monitor Spec.c13 + goroutine-leak census on implementation traces",
              assumptions=["goroutine exit and the poll-interval bound are runtime facts: measured, not proved"]),
})

PROPS.update({
    "C06": gw("C06",
              "Lean theorems about the two message-ID stores of the model (as in the repaired code): c06_broker_store_frame / c06_client_store_frame / c06_new_exchanges "
              "(bookkeeping of one side never changes the other side's store), c06_acks_use_own_store + c06_lookup_independent (each acknowledgement is looked up only "
              "among the exchanges of the side that can answer it), c06_finally_only_self(_b) + c06_successor_survives (a finished or superseded exchange removes only "
              "itself) for ALL states; the whole-session statement (every acknowledgement of an exchange in progress is delivered) is checked by the monitor Spec.c06 on "
              "the collide profile (both sides forced onto a handful of message IDs); gateway half only - the client-library half needs the client suite",
              "theorems c06_* (all states); monitor Spec.c06 on implementation traces (collide profile)"),
})

PROPS.update({
    "C02": gw("C02",
              "Lean theorems c02_resolves (the (type, ID) the gateway picks for a broker topic denotes exactly that name: short decoding, the session registry, or the "
              "predefined configuration as this client reads it, via C05), c02_direct, c02_register_first + c02_after_regack (REGISTER first, the parked PUBLISH released "
              "by the accepted REGACK under the new ID), c02_regack_refused, c02_dropped for ALL states; the whole-session statement (the client's own knowledge from the "
              "REGISTERs/REGACKs/SUBACKs it has seen; every relayable message answered by the PUBLISH or a REGISTER) is checked by the monitor Spec.c02; tie: gateway suite",
              "theorems c02_* (one-step, all states) on top of C05/C21; monitor Spec.c02 on implementation traces"),
    "C16": gw("C16",
              "GATEWAY HALF: Lean theorems c16_setDup (a retransmission differs in the DUP flag only), c16_retry_resends, c16_retry_gives_up (RetryCount budget; timing "
              "is C19), c16_retry_suspended_while_asleep, c16_puback / c16_pubrec / c16_pubrel / c16_pubcomp (+ duplicates ignored) for ALL states; ALL RUNS: "
              "c16_retry_counter_bounded (in EVERY reachable state the retry counter of every gateway-initiated exchange is at most RetryCount: invariant AllB, frame FB, "
              "Lemmas/GwRetry.lean); monitor Spec.c16 "
              "(timer-driven copies carry DUP, repeat a datagram already sent, stay within the budget) on implementation traces. End-to-end completion under loss on a real "
              "lossy link is NOT run (the system suite has a lossless link)",
              "theorems c16_* (gateway model); monitor Spec.c16",
              assumptions=["partial: the two halves are proved and tied separately (gateway suite, client suite); their composition under loss is not executed"]),
    "C32": gw("C32",
              "Lean theorems c32_to_broker, c32_short_roundtrip, c32_to_client for ALL configurations, client IDs, IDs and names: predefined and short IDs read the same "
              "on both sides (both sides use GetTopicName(clientID, id) / the short-topic codec; the gateway never uses a shadowed '*' entry, via C05 and C21); monitors "
              "Spec.c01 / Spec.c02 projected to predefined and short IDs on implementation traces; ties: gateway suite + topics suite (real PredefinedTopics). The client "
              "library's own reading function (topicForPublish) is tied by the client suite (when built)",
              "theorems c32_* on top of c05_id_sound, c21_short_*, c01_name, c02_resolves; monitors projected to tit 1/2",
              suites=["gateway", "topics"],
              extra_relevant=lambda line: line.startswith("DIFF topics")),
})
# C05 also has a gateway side: the ID the gateway derives from a broker topic name must read back as that name for the client
PROPS["C05"]["suites"] = ["topics", "gateway"]
_c05rel = PROPS["C05"]["relevant"]
PROPS["C05"]["relevant"] = lambda line: _c05rel(line) or line.startswith("DIFF gateway-C05 ")
PROPS["C05"]["level_text"] += "; gateway side: monitor (Spec.c02 projected to predefined IDs) on gateway-suite traces with shadowing configurations"

TB_CLI = TB_COMMON + [
    "Bisquitt/Model/Cli.lean + Model/Topics.lean: effective mapping = Merge(file, ParsePredefinedTopicOptions(options)); tied by (a) the regenerated AST facts "
    "Gen.cliPipeline_* / Gen.cliGuard_* (statements of each tool's action that touch the mapping / return the 'insecure' error, with their guarding conditions) and "
    "(b) the cli suite, which runs the real Application of all three tools with real arguments against a fake MQTT-SN gateway / a fake broker and a scripted "
    "client on loopback sockets, and (c) the topics suite for Merge / ParsePredefinedTopicOptions themselves",
    "gopkg.in/yaml decoding of the file written by the harness (names and client IDs double-quoted), urfave/cli flag parsing, the loopback network stack",
]

PROPS.update({
    "C30": {
        "level": "proof",
        "level_text": "Lean theorems c30_merge (Merge overrides entry by entry), c30_options_later_wins, c30_no_client_is_star / c30_with_client, c30_bad_option_refuses, "
                      "c30_effective + c30_reads (the binding every tool uses = last option for (client, ID), else the file's; a client reads its own binding, else the '*' one) "
                      "for ALL files, option lists, clients and IDs, and c30_same_pipeline (regenerated facts: all three tools run file -> options -> Merge(options into file)); "
                      "tie: the real tools run on generated files and options (which ID each tool uses for each name, which name the gateway forwards each ID under), compared "
                      "with the model and with an independent statement of the rule (Driver specEntry)",
        "technique": "Lean 4 theorems over a hand-written model + regenerated AST facts + differential correspondence on the real command-line tools",
        "suites": ["cli", "topics"],
        "relevant": lambda line: line.startswith("DIFF cli ") or line.startswith("DIFF topics merge") or line.startswith("DIFF topics parse"),
        "rule": "cases from lib/gen_cli.py (one seed): a YAML file (0-5 entries over 4 client IDs incl. '*', occasionally a client key with no body), 0-4 options (with and without client ID, "
                "repeated (client, ID) pairs, malformed ones), 1-5 topic names and 1-3 IDs to query; each case is run through bisquitt-sub (one run, a SUBSCRIBE per name), "
                "bisquitt-pub (one run per name) and bisquitt (fake broker + scripted client: PUBLISH per predefined ID, broker message per name); every R line is one tool's "
                "answer for one case; corpus/cli.corpus runs first",
        "trusted_base": TB_CLI,
        "assumptions": ["the YAML decoder and the flag parser are trusted", "names and client IDs in generated files are printable (YAML-escaping is the harness')"],
        "explanation": "theorems c30_* (all inputs); regenerated pipeline facts; real tools vs model and vs the independent rule on generated cases",
    },
    "C31": {
        "level": "proof",
        "level_text": "TOOLS: Lean theorems c31_guard_facts (regenerated: each tool returns its 'insecure' error exactly under credentials && !useDTLS && !insecure), c31_refuses_iff, "
                      "c31_never_plaintext; tie: the real tools started with every combination of credentials / --dtls=false / --insecure that runs without a DTLS peer "
                      "(refused vs started, AUTH seen by the fake gateway). CLIENT LIBRARY half (AUTH after every CONNECT, never without a user): decided by the client suite",
        "technique": "Lean 4 decision-logic theorem + regenerated AST facts + differential correspondence on the real command-line tools",
        "suites": ["cli"],
        "relevant": lambda line: line.startswith("DIFF cli-sec "),
        "rule": "all 8 combinations of (credentials configured, --dtls unset / =false, --insecure) for each of the three tools, plus the generated configuration cases (AUTH must "
                "not appear without --user)",
        "trusted_base": TB_CLI,
        "assumptions": ["runs with --dtls=true need a DTLS peer and are covered by the regenerated guard condition only"],
        "explanation": "theorems c31_*; regenerated guard facts; real tools on all runnable flag combinations",
    },
})

TB_CL = TB_COMMON + [
    "Bisquitt/Model/Client.lean: hand-written model of the client library (client.go, net.go, the *_transaction.go files): a blocking API call is its synchronous prefix "
    "plus a waiter that returns when its transaction ends or the goroutine group has ended; one call of handlePacket / one timer callback is one step; tied to the code by "
    "the client suite (exact equality of timestamped datagrams, per-instant equality of API returns / handler invocations / state samples / end of the group, under testing/synctest)",
    "the harness' fake datagram connection (client_drv_test.go) and testing/synctest's virtual clock",
]
CL_RULE = ("sessions generated by lib/gen_client.py from one seed: the script plays the application (Connect, Register, Subscribe*, Unsubscribe*, Publish* at every QoS, Ping, Sleep, "
           "Disconnect, Close, each in its own goroutine) and the gateway (acknowledgements delivered, delayed past retries, lost, duplicated, with wrong message IDs; REGISTER / "
           "PUBLISH QoS 0-2 / PUBREL incl. retransmissions; DISCONNECT; stray, illegal and malformed datagrams) over configurations (user, will, keep-alive, ConnectTimeout, "
           "RetryDelay, RetryCount, predefined topics); each session runs on the real Client under testing/synctest and on the model; a case is one session; seeded, hence distinct")


def cl(prop, level_text, explanation, extra_suites=None, assumptions=None):
    pre = "DIFF client "
    return {
        "level": "proof",
        "level_text": level_text,
        "technique": "Lean 4 theorems over the hand-written client model + differential correspondence under testing/synctest + trace monitors",
        "suites": ["client"] + (extra_suites or []),
        "relevant": (lambda line: line.startswith(pre)),
        "rule": CL_RULE,
        "trusted_base": TB_CL,
        "assumptions": (assumptions or []) + [
            "atomic steps: goroutine interleavings inside one handlePacket call / timer callback / API-call prefix are not modelled; where Go's select may take either of two "
            "ready branches (an exchange ending at the instant the group has ended) the model admits both results",
            "after the group has been cancelled, whether a transaction created later still retransmits is a scheduling race in the code: repeats are compared modulo that"],
        "explanation": explanation,
    }


PROPS.update({
    "C17": cl("C17",
              "Lean theorems c17_retry_dup (a retransmission = the stored packet with DUP set for PUBLISH / SUBSCRIBE, same message ID and payload), c17_give_up, c17_puback / "
              "c17_pubrec / c17_pubcomp (which acknowledgement ends which exchange, in order), c17_returns_result (the blocked call returns the exchange's result at that instant), "
              "c17_pubrel_answered (EVERY PUBREL is answered with a PUBCOMP of the same ID while the connection is open) for ALL states of the client model; whole-session "
              "statements (nil exactly when acknowledged within the budget; timer-driven datagrams repeat an earlier one with DUP) checked by the monitors ClientSpec.c17*; tie: client suite",
              "theorems c17_* (client model, all states); monitors c17Retransmissions / c17Pubrel / c17Publish on implementation traces"),
    "C28": cl("C28",
              "Lean theorems c28_returns_when_done, c28_returns_when_group_ended (+ c28_interrupted_not_ok: never nil), c28_keeps_waiting (a call stays blocked only while its "
              "exchange is unfinished and the group runs), c28_retry_counts + c17_give_up (each retry-timer expiry uses up the budget), c28_connect_timeout, "
              "c28_sleep_pingresp_bound, c28_group_ends for ALL states of the client model; real-time bounds of every call and goroutine exit are measured on the real client "
              "(virtual clock, goroutine census after the end) by the monitor ClientSpec.c28",
              "theorems c28_* (client model); monitor c28 (per-call bound from ConnectTimeout / RetryDelay / RetryCount / sleep duration / maxPingrespWait; goroutine census)",
              assumptions=["the bound for Sleep includes the constant maxPingrespWait = 60 s of the code (regenerated)", "goroutine exit is measured, not proved"]),
    "C33": cl("C33",
              "Lean theorems c33_ticker_follows_state, c33_tick, c33_stop_on_leaving_active + c33_no_timer_after_stop (no keep-alive retransmission while asleep / disconnected), "
              "c33_keepalive_result_private, c33_missed_tick_served, c33_ping_joins, c33_state_change_never_blocks for ALL states of the client model; whole-session statements (a ping per period while active; none "
              "while asleep or disconnected) checked by the monitor ClientSpec.c33; tie: client suite (keepalive profile)",
              "theorems c33_* (client model, incl. apiPing_open / c33_ping_joins for the repaired sharing of the PINGREQ slot); monitor c33 on implementation traces"),
})
# client halves of properties that speak about both sides
for _p, _note in (("C06", "client half: theorems c06_client_*; monitor ClientSpec.c06 (collide profile)"),
                  ("C16", "CLIENT HALF (handler exactly once): theorems c16_client_publish2_silent (a QoS-2 PUBLISH, first or retransmitted, runs no callback), "
                          "c16_client_publish2_opens, c16_client_pubrel_once (the PUBREL of an open exchange delivers once, answers PUBCOMP, forgets the exchange), "
                          "c16_client_pubrel_unknown_silent / c16_client_second_pubrel_silent (a retransmitted PUBREL runs no callback) for ALL states of the client model; "
                          "monitor ClientSpec.c16 (every QoS-2 callback run is covered by exactly one PUBREL of an open exchange; a released message on a short / predefined topic that a "
                          "current subscription matches does reach a callback) on traces of the real client, incl. first copies that carry DUP; tie: client suite"),
                  ("C23", "client half: monitor ClientSpec.c23 on every datagram the real client sends (no theorem for the client half yet)"),
                  ("C27", "history half: theorems c27_dispatch / c27_no_match_no_callback / c27_unsubscribed; monitor ClientSpec.c27 (current subscriptions from the API results)"),
                  ("C31", "client half: theorems c31_client_auth_after_connect / c31_client_no_auth_without_user; monitor ClientSpec.c31")):
    PROPS[_p]["suites"] = PROPS[_p]["suites"] + ["client"]
    _r = PROPS[_p]["relevant"]
    PROPS[_p]["relevant"] = (lambda r: (lambda line: r(line) or line.startswith("DIFF client ")))(_r)
    PROPS[_p]["level_text"] += "; " + _note

# the timing budgets of C19 are also exercised through the client library (ConnectTimeout vs RetryDelay)
PROPS["C19"]["suites"] = ["tx", "client"]
_c19rel = PROPS["C19"]["relevant"]
PROPS["C19"]["relevant"] = lambda line: _c19rel(line) or line.startswith("DIFF client ")

PROPS["C25"] = {
    "level": "proof",
    "level_text": "PARTIAL by nature: Lean theorems c25_decode_total (all byte strings), c25_dispatch_total and c25_unchecked_assertions (regenerated facts: every dispatcher has a "
                  "default arm; the complete list of panicking type assertions in gateway/, client/, transactions/ is the reviewed one); nil dereferences, index errors and races in the "
                  "real handlers are runtime behaviour: all suites (gateway, client, cli, codec, tx) run the real code on their generated and adversarial streams and a panic, fatal "
                  "error or hang is reported as a failing input with the running case as replay",
    "technique": "Lean 4 theorems + regenerated AST facts + crash/hang stream of every correspondence suite",
    "suites": ["gateway", "client", "cli", "codec"],
    "relevant": lambda line: ("PANIC" in line) or (" panic" in line) or ("impl=panic" in line),
    "rule": "the case streams of the gateway, client, cli and codec suites (see C01, C17, C30, C20): every decodable packet type in every state of a session, malformed and "
            "illegal-direction packets, acknowledgements nobody asked for, collisions of message IDs, timers firing at every point; one case = one session / one datagram",
    "trusted_base": TB_GW + TB_CL[4:] + TB_CLI[4:],
    "assumptions": ["memory safety and data races of the real code are observed on the runs made, not proved"],
    "explanation": "theorems c25_*; crash/hang detection of every suite (process-crash, process-hang, panic lines)",
}

PROPS["C15"] = {
    "level": "proof",
    "level_text": "Lean theorems c15_isolation, c15_own, c15_projection (after ANY interleaved history the session of a peer is what its own events alone produce) over the "
                  "multi-session model, c15_no_shared_state (regenerated: no package-level variables in gateway/ besides error sentinels); tie: the REAL gateway (Application.Run, "
                  "accept loop, per-session goroutines, real UDP/TCP loopback) runs an observed conversation alone and again with a second, disruptive peer (connecting before or "
                  "after, AUTH with passwords of several lengths, registrations, wildcard subscription, garbage, dying by error or DISCONNECT): everything the observed peer receives "
                  "and everything the broker receives on its connection must be identical",
    "technique": "Lean 4 theorems over a multi-session model + regenerated facts + relational (non-interference) run of the real gateway",
    "suites": ["cli"],
    "relevant": lambda line: False,
    "rule": "4 two-peer scenarios per run (second peer first / second, dying by error / by DISCONNECT, password length varied by seed), each run twice (alone / with the second peer) "
            "through the real `bisquitt` application with --auth and a default broker password, plus a few single-peer configuration cases; one R line per scenario",
    "trusted_base": TB_CLI + ["Bisquitt/Model/Sessions.lean (sessions keyed by peer address)", "pion/udp listener (peer-address demultiplexing) is exercised, not modelled"],
    "assumptions": ["isolation is checked for the scripted two-peer scenarios, not for arbitrary interleavings of real sessions; the model theorem covers all interleavings of the model",
                    "peers using the same MQTT client ID are out of scope (the broker, not the gateway, resolves that)"],
    "explanation": "theorems c15_*; relational two-peer runs of the real gateway",
}

PROPS.update({
    "C12": gw("C12",
              "Lean theorems for ALL states of the gateway model: c12_forwarded (PINGREQ / PUBREL of an active client reach the broker at once), "
              "c12_fresh_after_keepBrokerAlive / c12_client_datagram_refreshes (after EVERY client datagram that a connected session handles without an error the newest packet "
              "to the broker is less than half a keep-alive old, whatever the gateway answered itself: otherwise a PINGREQ is written at that instant), "
              "c12_pinger_for_every_sleep / c12_pinger_for_every_cycle (every DISCONNECT(d) and every wake-up starts one pinger: period one keep-alive, until one announced "
              "duration later), c12_pinger_ticks. Their composition over a whole timed history (two broker packets less than 1.5 keep-alives apart as long as the client meets its "
              "obligations) is argued in Props/C12.lean but is NOT a Lean theorem: the monitor Spec.c12 evaluates the full property on implementation traces of clients "
              "that meet their obligations (keepalive profile); ANY starvation is a violation. The four families of histories that violated the property were repaired "
              "(/repo b840d30) and are 'fixed:' entries now; their witnesses w-c12-* run first",
              "theorems c12_* (one-step, all states); monitor Spec.c12 (the full property on implementation traces)",
              assumptions=["the client's obligations are evaluated from the trace (a datagram within every keep-alive while active; a wake-up within every announced sleep); once "
                           "the client breaks them the monitor stops judging that trace",
                           "the timed composition of the one-step theorems is not proved"]),
    "C34": gw("C34",
              "Gateway side under the stated broker assumption: Lean theorems c34_pinger_stops (+ c34_pinger_cancelled), c34_pinger_replaced, c34_pinger_of_the_next_cycle (a wake-up "
              "starts ONE pinger that ends one announced duration after that wake-up), c34_pinger_cancelled_on_reconnect, c34_retries_stop, c34_broker_eof_ends, "
              "c34_half_open_connect for ALL states of the gateway model; the monitor Spec.c34 checks on implementation traces of vanishing clients that the gateway sends "
              "nothing to the broker of its own accord later than the announced sleep duration after the client's last datagram, plus the retry budget, and the session-end rules of C13 / C10 (incl. the goroutine census) "
              "are applied as 'session-not-reaped'. The broker's own keep-alive enforcement is the environment and is not executed",
              "theorems c34_*; monitors Spec.c34 + C13/C10 rules re-labelled",
              assumptions=["a keep-alive-enforcing broker is assumed, not run: the bound '1.5 x keep-alive after the last packet' is the broker's; the check establishes that the "
                           "gateway's last packet of its own accord comes no later than the announced sleep + retry budget"]),
})

PROPS["C26"] = {
    "level": "proof",
    "level_text": "PARTIAL proof + executed composition. Proved for ALL states of the two hand-written models: the agreements between client and gateway on which the exchanges "
                  "rest — c26_registration_id_stable / c26_partial_burst_same_id (a topic being registered keeps its TopicID: every REGISTER of a burst carries the same ID), "
                  "c26_client_register_new / _repeated / _conflict (the client accepts a new name and a repeated (name, ID), refuses only a clash), c26_subscribe_keeps_id (no second "
                  "TopicID for a registered name), c26_sleep_from_awake_silent with c11_wake (both sides agree on 'asleep' after PINGRESP without a DISCONNECT), the topic tables of the two sides agree (Agree) — kept by "
                  "every REGISTER / SUBSCRIBE / gateway-REGISTER exchange (c26_agree_*) and, by induction, by ANY history of REGISTER / SUBSCRIBE exchanges from the initial states "
                  "(reach_inv, c26_partial_publish_after_any_history: a Publish on a registered name then reaches the broker under exactly that name; the models' handlers are shown "
                  "to be such steps; Inv2 / reach2_inv / c26_partial_publish_after_any_history2 / c26_partial_ids_mean_one_name extend this to histories that also contain the gateway's own "
                  "registrations for broker messages, in any interleaving), c26_spec_* (sanity of the specification; c26_spec_agrees_with_broker). The property at full strength (C26Full: every script, composed model = specification) is stated and NOT proved; it is decided script by script: the "
                  "system suite runs the REAL client library against the REAL gateway (Gateway.ListenAndServe, UDP loopback) and a conforming MQTT broker, runs the composed Lean model "
                  "(client model || lossless link || gateway model || broker) on the same scripts (correspondence) and evaluates the specification Spec/System.lean on the "
                  "implementation's own results (every call's result, the broker's received publishes and subscription table, every expected handler invocation). Five genuine "
                  "defects found this way were repaired (fix commits 0298647 + 75d4de9, 3a936e9, bb9fec9, and the client crash 1f0bbdd)",
    "technique": "Lean 4 theorems over the two hand-written models + executed composed model + specification monitor on runs of the two real implementations together",
    "suites": ["system", "gateway", "client"],
    "relevant": lambda line: line.startswith("DIFF system "),
    "rule": "scripts generated by lib/gen_system.py from one seed: connect, register, subscribe (plain, wildcard, short, predefined; QoS 0-2; repeated), unsubscribe, publish at QoS 0-2 on "
            "registered / short / predefined / never-registered names, ping, broker-side publishes on known, new, short and predefined topics, bursts of 2-5 messages on one (mostly "
            "new) topic, sleep cycles of 1-3 sleeps with messages arriving during and between them, reconnect, disconnect; payloads unique per case; plus the gateway and client "
            "suites (whose corpora hold the packet-level witnesses of the repaired defects)",
    "trusted_base": TB_GW + TB_CL[len(TB_COMMON):] + [
        "Bisquitt/Model/System.lean (composition: zero-delay lossless link, 50 ms ticks) and Spec/System.lean (expectations); the harness' broker (harness/system_drv_test.go) and its "
        "Lean twin Sys.Broker are assumed conforming: one delivery per message at the highest matching granted QoS, QoS 2 routed on PUBREL",
        "real time: the system suite sleeps 40 ms after every call and waits for 200 ms of silence at the end of a case; loopback UDP is assumed lossless and ordered"],
    "assumptions": ["DTLS, authentication, wills and the keep-alive goroutine are off in the system suite (they are covered by the client, gateway and cli suites)",
                    "duplicates of a message at the handler (retransmissions queued for a sleeping client) are not judged: the property asks that a message reaches the handler",
                    "calls are made one at a time (the property's 'sequence'); concurrent API use is the client suite's business"],
    "explanation": "partial theorems c26_*; composed model executed beside the two real implementations; specification monitor",
}

# the thorough tier: four times the case counts written above (a gateway or client session costs about 2 ms)
for _d in (GW_PROFILES, CL_PROFILES):
    for _k in list(_d):
        _d[_k] = [(pr, nq, nt * 4) for pr, nq, nt in _d[_k]]
