#!/usr/bin/env python3
"""Case generator for the client correspondence suite.

usage: gen_client.py <seed> <ncases> <profile> > cases.txt

The script plays the application (API calls) and the gateway (datagrams).  Event times are
100*q + (index+1) so that no timer deadline (an event time plus a multiple of 100 ms) coincides
with an event or with a deadline started by another event.
"""
import random, sys, os
sys.path.insert(0, os.path.dirname(os.path.abspath(__file__)))
from gen_gateway import (hdr, u16, register, regack, publish, puback, pubcomp, pubrec, pubrel, pingreq, disconnect, H)


def connack(rc=0):
    return hdr(0x05, bytes([rc]))


def suback(qos, tid, mid, rc=0):
    return hdr(0x13, bytes([(qos & 3) << 5]) + u16(tid) + u16(mid) + bytes([rc]))


def unsuback(mid):
    return hdr(0x15, u16(mid))


def pingresp():
    return hdr(0x17, b'')


def willtopicreq():
    return hdr(0x06, b'')


def willmsgreq():
    return hdr(0x08, b'')


NAMES = [b'a/b', b'a/c', b't/1', b'sensor/temp', b'x', b'ab', b'zz']
FILTERS = [b'a/b', b'a/+', b'#', b'a/#', b't/1', b'+/1', b'ab', b'sensor/temp', b'x']
CLIENTS = [b'c1', b'c2', b'*']


class G:
    def __init__(self, r):
        self.r = r
        self.q = 0
        self.ev = []
        self.mid = 0          # last message ID the client used
        self.gmid = 100       # the gateway's own message IDs
        self.ncall = 0
        self.reg = {}         # name -> id as the client should know it
        self.nextalias = 1

    def at(self, gap=None):
        self.q += gap if gap is not None else self.r.choice([0, 0, 1, 1, 2, 3])
        return 100 * self.q + len(self.ev) % 97 + 1

    def api(self, *args, gap=None):
        self.ncall += 1
        self.ev.append("@%d api a%d %s" % (self.at(gap), self.ncall, " ".join(str(a) for a in args)))

    def sn(self, pkt, gap=None):
        self.ev.append("@%d sn %s" % (self.at(gap), H(pkt)))

    def end(self, gap):
        self.ev.append("@%d end" % self.at(gap))

    def cmid(self):
        self.mid = self.mid % 65535 + 1
        return self.mid


def gen_case(r, idx, profile):
    g = G(r)
    cid = r.choice([b'c1', b'c1', b'c2'])
    user = r.choice([None, None, b'u', b'user'])
    ka = 0
    if profile == 'keepalive' or r.random() < 0.15:
        ka = r.choice([1, 2, 5])
    rd = r.choice([200, 300, 700])
    rc = r.choice([0, 1, 2, 3])
    ct = r.choice([500, 1000, 3000])
    will = r.random() < 0.25
    predef = []
    if r.random() < 0.5:
        for _ in range(r.randint(1, 3)):
            c, i, n = r.choice(CLIENTS), r.choice([1, 2, 3]), r.choice([b'p/one', b'p/two', b'pq', b'p/+/w'])
            if any(pc == c and pi == i for pc, pi, _ in predef) or any(pn == n for _, _, pn in predef):
                continue
            predef.append((c, i, n))
    hdrkv = "cid=%s user=%s pass=%s ka=%d ct=%d rd=%d rc=%d clean=%d" % (
        H(cid), H(user) if user else 'none', H(r.choice([b'p', b''])), ka, ct, rd, rc, r.random() < 0.8)
    if will:
        hdrkv += " will=%s wmsg=%s wq=%d wr=%d" % (H(r.choice([b'w/t', b'w'])), H(r.choice([b'bye', b''])), r.choice([0, 1, 2]), r.random() < 0.3)
    if predef:
        hdrkv += " predef=" + ",".join("%s:%d:%s" % (H(c), i, H(n)) for c, i, n in predef)
    lossy = profile == 'loss'
    ackp = 0.55 if lossy else 0.9

    def payload():
        return bytes(r.choice(b'abc\x00\xff') for _ in range(r.choice([0, 1, 2, 5, 40])))

    def do_connect():
        g.api("connect")
        if will and r.random() < 0.9:
            g.sn(willtopicreq())
            if r.random() < 0.9:
                g.sn(willmsgreq())
        v = r.random()
        if v < ackp:
            g.sn(connack(0 if r.random() < 0.9 else r.choice([1, 2, 3])))
        elif v < ackp + 0.5 * (1 - ackp):
            # the first CONNECT is lost: answer the retry
            g.q += ct // 100
            g.sn(connack(0))
        else:
            g.q += (rc + 1) * ct // 100 + 1

    def alias():
        a = g.nextalias
        g.nextalias += 1
        return a

    def maybe_retry_wait():
        # wait while the client retransmits
        if r.random() < 0.5:
            g.q += r.choice([rd // 100, 2 * rd // 100, (rc + 1) * rd // 100 + 1])

    def op_register():
        name = r.choice(NAMES)
        g.api("register", H(name))
        mid = g.cmid()
        if r.random() < ackp:
            ok = r.random() < 0.9
            a = g.reg.get(name) or alias()
            g.sn(regack(a, mid if r.random() < 0.95 else mid + 1, 0 if ok else r.choice([1, 2, 3])))
            if ok:
                g.reg[name] = a
        else:
            maybe_retry_wait()
            if r.random() < 0.5:
                a = g.reg.get(name) or alias()
                g.sn(regack(a, mid, 0))
                g.reg[name] = a

    def op_subscribe():
        qos = r.choice([0, 1, 2])
        v = r.random()
        if v < 0.7:
            f = r.choice(FILTERS)
            g.api("subscribe", H(f), qos)
            wildcard = b'+' in f or b'#' in f
            short = len(f) == 2
            tid = 0 if (wildcard or short) else (g.reg.get(f) or alias())
        else:
            i = r.choice([1, 2, 3, 9])
            g.api("subscribepre", i, qos)
            f, tid, wildcard, short = None, i, False, False
        mid = g.cmid()
        if r.random() < ackp:
            ok = r.random() < 0.9
            g.sn(suback(r.choice([0, qos]), tid, mid, 0 if ok else r.choice([1, 2, 3])))
            if ok and f is not None and tid:
                g.reg[f] = tid
        else:
            maybe_retry_wait()
            if r.random() < 0.5:
                g.sn(suback(qos, tid, mid, 0))
                if f is not None and tid:
                    g.reg[f] = tid

    def op_unsubscribe():
        if r.random() < 0.75:
            g.api("unsubscribe", H(r.choice(FILTERS)))
        else:
            g.api("unsubscribepre", r.choice([1, 2, 9]))
        mid = g.cmid()
        if r.random() < ackp:
            g.sn(unsuback(mid))
        else:
            maybe_retry_wait()

    def op_publish():
        qos = r.choice([0, 0, 1, 1, 2, 2, 3])
        v = r.random()
        if v < 0.55:
            name = r.choice(list(g.reg)) if g.reg and r.random() < 0.8 else r.choice(NAMES)
            g.api("publish", H(name), qos, int(r.random() < 0.2), H(payload()))
            consumed = (len(name) == 2) or (name in g.reg)
        elif v < 0.7:
            g.api("publish", H(r.choice([b'ab', b'zz', b'\xc3\xa9'])), qos, 0, H(payload()))
            consumed = True
        else:
            g.api("publishpre", r.choice([1, 2, 3]), qos, 0, H(payload()))
            consumed = True
        if not consumed:
            return
        mid = g.cmid()
        if qos == 1:
            if r.random() < ackp:
                g.sn(puback(1, mid if r.random() < 0.95 else mid + 1, 0))
            else:
                maybe_retry_wait()
                if r.random() < 0.5:
                    g.sn(puback(1, mid, 0))
        elif qos == 2:
            if r.random() < ackp:
                g.sn(pubrec(mid))
                if r.random() < ackp:
                    g.sn(pubcomp(mid))
                    if r.random() < 0.15:
                        g.sn(pubcomp(mid))
                else:
                    maybe_retry_wait()
                    if r.random() < 0.5:
                        g.sn(pubcomp(mid))
            else:
                maybe_retry_wait()
                if r.random() < 0.4:
                    g.sn(pubrec(mid))

    def gw_publish():
        qos = r.choice([0, 0, 1, 1, 2, 2])
        v = r.random()
        retain = r.random() < 0.2
        if v < 0.5 and g.reg:
            name = r.choice(list(g.reg))
            tit, tid = 0, g.reg[name]
        elif v < 0.6:
            tit, tid = 0, r.choice([77, 0])            # an ID the client has never heard of
        elif v < 0.75:
            tit, tid = 2, r.choice([0x6162, 0x7a7a, 0x2b61])
        elif v < 0.9:
            tit, tid = 1, r.choice([1, 2, 3, 9])
        else:
            # a new topic: REGISTER first
            name, tid = r.choice([b'new/1', b'new/2', b'a/b']), alias() + 50
            mid = g.gmid = g.gmid + 1
            g.sn(register(tid, mid, name))
            if name not in g.reg:
                g.reg[name] = tid
            tit = 0
        mid = 0
        if qos:
            mid = r.choice([g.gmid + 1, g.gmid + 1, g.mid, max(g.mid, 1)]) if profile == 'collide' else g.gmid + 1
            g.gmid += 1
        # (the first copy of a QoS 1/2 message may get lost: then the only one the client sees carries DUP - and a
        # broker's own retransmission is forwarded with DUP as well)
        p = publish(tit, tid, mid, payload(), qos, bool(qos) and r.random() < 0.25, retain)
        g.sn(p)
        if qos == 2:
            w = r.random()
            if w < 0.2:
                g.sn(publish(tit, tid, mid, b'dup', qos, True, retain))     # retransmitted PUBLISH (PUBREC lost)
            if w < 0.85:
                g.sn(pubrel(mid))
                if r.random() < 0.3:
                    g.sn(pubrel(mid))                                      # retransmitted PUBREL (PUBCOMP lost)

    def sleep_cycle():
        d = r.choice([1, 2, 3])
        g.api("sleep", d)
        if r.random() < 0.2:
            g.sn(pingresp())          # a PINGRESP nobody asked for, while the DISCONNECT is unanswered
        v = r.random()
        if v < ackp:
            g.sn(disconnect(0))
        elif v < ackp + 0.6 * (1 - ackp):
            g.q += rd // 100
            g.sn(disconnect(0))
        else:
            g.q += (rc + 1) * rd // 100 + 1
            return
        if r.random() < 0.3:
            gw_publish()
        if r.random() < 0.2:
            g.sn(pingresp())          # ... or while the client sleeps
        g.q += d * 10
        if r.random() < 0.85:
            if r.random() < 0.4:
                gw_publish()
            g.sn(pingresp(), gap=r.choice([0, 1, 2]))
            w = r.random()
            if w < 0.4:
                do_connect()
            elif w < 0.6:
                g.api("sleep", r.choice([1, 2]))
                g.q += 25
                g.sn(pingresp())
        else:
            g.q += 605

    def stray():
        v = r.random()
        if v < 0.2:
            # (a TopicID of its own: one ID for two names makes the Go map lookup by ID nondeterministic)
            g.sn(regack(alias(), r.choice([1, g.mid, 65535]), 0))
        elif v < 0.35:
            g.sn(puback(1, r.choice([1, g.mid]), 0))
        elif v < 0.5:
            g.sn(r.choice([pubrec, pubcomp, pubrel])(r.choice([1, g.mid, g.gmid])))
        elif v < 0.6:
            g.sn(r.choice([suback(0, alias(), r.choice([1, g.mid]), 0), unsuback(g.mid), pingresp(), connack(0), willtopicreq(), willmsgreq()]))
        elif v < 0.7:
            g.sn(bytes(r.choice([[], [1], [1, 5], [2, 0x19], [3, 4, 1], [5, 0x0c, 0, 0, 1]])))
        elif v < 0.8:
            # packets a gateway never sends to a client
            g.sn(r.choice([hdr(0x04, bytes([4, 1, 0, 10]) + b'x'), hdr(0x12, bytes([0]) + u16(1) + b'a'), pingreq(b'')]))
        elif v < 0.9:
            g.sn(publish(3, 1, 0, b'x', 0))        # invalid topic ID type
        else:
            g.sn(hdr(0x0c, bytes([0x60]) + u16(1) + u16(0) + b'x'))   # QoS 3 from the gateway

    # ----- the script
    if r.random() < 0.1:
        # API calls before Connect
        for _ in range(r.randint(1, 2)):
            r.choice([op_publish, lambda: g.api("ping"), lambda: g.api("sleep", 1), lambda: g.api("disconnect")])()
    do_connect()
    n = r.randint(0, 9)
    for _ in range(n):
        if len(g.ev) > 70:
            break
        w = r.random()
        if w < 0.18:
            op_register()
        elif w < 0.36:
            op_subscribe()
        elif w < 0.42:
            op_unsubscribe()
        elif w < 0.62:
            op_publish()
        elif w < 0.8:
            gw_publish()
        elif w < 0.85:
            g.api("ping")
            if r.random() < ackp:
                g.sn(pingresp())
        elif w < 0.92 or (profile == 'sleep' and w < 0.97):
            sleep_cycle()
        elif w < 0.97:
            stray()
        else:
            g.q += r.choice([rd // 100, (rc + 1) * rd // 100 + 1, 12, 31])
    fin = r.random()
    if fin < 0.35:
        g.api("disconnect")
        if r.random() < ackp:
            g.sn(disconnect(0))
    elif fin < 0.45:
        g.api("close")
        if r.random() < ackp:
            g.sn(disconnect(0))
    elif fin < 0.55:
        g.sn(disconnect(0))       # unsolicited
    elif fin < 0.6:
        g.sn(disconnect(0))
        op_publish()
    g.end(r.choice([3, 12, (rc + 2) * rd // 100 + 2, 25]))
    return "case g%d-%s %s\n" % (idx, profile, hdrkv) + "\n".join(g.ev) + "\n"


def main():
    seed, n, profile = int(sys.argv[1]), int(sys.argv[2]), sys.argv[3]
    r = random.Random(seed * 1000003 + sum(profile.encode()) % 1000 + 17)
    profiles = [profile] if profile != 'mix' else ['mix', 'mix', 'loss', 'sleep', 'keepalive', 'collide']
    out = []
    for i in range(n):
        out.append(gen_case(r, i, r.choice(profiles)))
    sys.stdout.write("".join(out))


if __name__ == '__main__':
    main()
