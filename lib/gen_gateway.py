#!/usr/bin/env python3
"""Case generator for the gateway correspondence suite.

usage: gen_gateway.py <seed> <ncases> <profile> > cases.txt

A case is a header line plus timed events (see harness/gateway_drv_test.go).  Event times are
100*q + (index+1): every timer deadline of the gateway is an event time plus a multiple of
100 ms, so no two deadlines and no deadline and event ever coincide (DESIGN.md section 3.3).
"""
import random, sys


# ---------------------------------------------------------------- MQTT-SN encoders
def hdr(t, body):
    n = len(body) + 2
    if n <= 255:
        return bytes([n, t]) + body
    n += 2
    return bytes([1, (n >> 8) & 255, n & 255, t]) + body


def u16(x):
    return bytes([(x >> 8) & 255, x & 255])


def connect(cid=b'c1', ka=60, will=False, clean=True, proto=1):
    return hdr(4, bytes([(8 if will else 0) | (4 if clean else 0), proto]) + u16(ka) + cid)


def auth(user=b'u', pw=b'p', method=b'PLAIN', raw=None):
    data = raw if raw is not None else b'\0' + user + b'\0' + pw
    return hdr(3, bytes([0, len(method)]) + method + data)


def willtopic(t=b'w/t', qos=0, retain=False):
    return hdr(7, b'' if not t else bytes([((qos & 3) << 5) | (0x10 if retain else 0)]) + t)


def willmsg(m=b'bye'):
    return hdr(9, m)


def register(tid, mid, name):
    return hdr(0x0a, u16(tid) + u16(mid) + name)


def regack(tid, mid, rc=0):
    return hdr(0x0b, u16(tid) + u16(mid) + bytes([rc]))


def publish(tit, tid, mid, data, qos=0, dup=False, retain=False):
    f = (0x80 if dup else 0) | ((qos & 3) << 5) | (0x10 if retain else 0) | (tit & 3)
    return hdr(0x0c, bytes([f]) + u16(tid) + u16(mid) + data)


def puback(tid, mid, rc=0):
    return hdr(0x0d, u16(tid) + u16(mid) + bytes([rc]))


def pubcomp(mid):
    return hdr(0x0e, u16(mid))


def pubrec(mid):
    return hdr(0x0f, u16(mid))


def pubrel(mid):
    return hdr(0x10, u16(mid))


def subscribe(mid, name=None, tit=0, tid=0, qos=0, dup=False):
    f = (0x80 if dup else 0) | ((qos & 3) << 5) | (tit & 3)
    return hdr(0x12, bytes([f]) + u16(mid) + (name if tit == 0 else u16(tid)))


def unsubscribe(mid, name=None, tit=0, tid=0):
    return hdr(0x14, bytes([tit & 3]) + u16(mid) + (name if tit == 0 else u16(tid)))


def pingreq(cid=b''):
    return hdr(0x16, cid)


def disconnect(d=0):
    return hdr(0x18, b'' if d == 0 else u16(d))


def other_type(r):
    """packets a client is not supposed to send to a gateway"""
    t = r.choice([0x00, 0x01, 0x02, 0x05, 0x06, 0x08, 0x13, 0x15, 0x17, 0x1a, 0x1b, 0x1c, 0x1d])
    body = {0x00: b'\1\0\5', 0x01: b'\1', 0x02: b'\1', 0x05: b'\0', 0x06: b'', 0x08: b'', 0x13: b'\0\0\1\0\1\0',
            0x15: b'\0\1', 0x17: b'', 0x1a: b'', 0x1b: b'\0', 0x1c: b'x', 0x1d: b'\0'}[t]
    return hdr(t, body)


H = lambda b: b.hex() if b else '-'

NAMES = [b'a/b', b'a/c', b't/1', b't/2', b'sensor/temp', b'x', b'ab', b'zz', b'a/+', b'#', b'a/#', b'long/' + b'n' * 40]
PLAIN_NAMES = [n for n in NAMES if b'+' not in n and b'#' not in n]
CLIENTS = [b'c1', b'c2', b'*']
PRENAMES = [b'p/one', b'p/two', b'pq', b'p/+/w', b'a/b', b'']


class Gen:
    def __init__(self, r, profile):
        self.r = r
        self.profile = profile
        self.ev = []
        self.q = 0
        # what a well-behaved client/broker would know
        self.mid = r.choice([1, 1, 1, 100, 65530])
        self.bmid = r.choice([1, 1, 7, 65534])
        self.reg = {}        # name -> id handed out by the gateway (best effort bookkeeping)
        self.maybe = set()   # names that may have a registered ID (a second one would make
        #                      the gateway's choice between them depend on map iteration order)
        self.next_alias = 1
        self.connected = False
        self.asleep = False

    def at(self, gap_q=None):
        r = self.r
        if gap_q is None:
            gap_q = r.choice([0, 0, 0, 0, 1, 1, 2, 3])
        self.q += gap_q
        t = 100 * self.q + len(self.ev) + 1
        return t

    def sn(self, pkt, gap=None):
        self.ev.append("@%d sn %s" % (self.at(gap), H(pkt)))

    def mq(self, text, gap=None):
        self.ev.append("@%d mq %s" % (self.at(gap), text))

    def raw(self, kind, gap=None):
        self.ev.append("@%d %s" % (self.at(gap), kind))

    def nmid(self):
        m = self.mid
        self.mid = 1 if self.mid >= 65535 else self.mid + 1
        return m

    def nbmid(self):
        m = self.bmid
        self.bmid = 1 if self.bmid >= 65535 else self.bmid + 1
        return m


def gen_case(r, idx, profile):
    g = Gen(r, profile)
    authon = r.random() < (0.5 if profile in ('connect',) else 0.25)
    creds = r.random() < 0.4
    rd = r.choice([200, 200, 1000, 10000])
    rc = r.choice([0, 1, 2, 2, 4])
    ka = r.choice([1, 2, 5, 60, 60])
    # predefined configuration: avoid the same name twice among the entries one client can see
    predef = []
    if r.random() < 0.6:
        seen = set()
        for _ in range(r.randint(1, 5)):
            c = r.choice(CLIENTS)
            i = r.choice([1, 2, 3, 4, 300])
            n = r.choice(PRENAMES)
            if ((c, n) in seen) or any(pc == c and pi == i for pc, pi, _ in predef):
                continue
            # one client must not see the same name under two IDs (the gateway would pick either)
            if any(pn == n and (pc == c or pc == b'*' or c == b'*') for pc, _, pn in predef):
                continue
            seen.add((c, n))
            predef.append((c, i, n))
    cid = r.choice([b'c1', b'c1', b'c2', b'c3'])
    if profile == 'predef':
        # routing of predefined IDs: a client-specific entry and a "*" entry share an ID (the "*" one is
        # shadowed for this client), plus visible "*" entries and entries of other clients
        ns = list(PRENAMES[:4])
        r.shuffle(ns)
        i0 = r.choice([1, 2, 3])
        predef = [(cid, i0, ns[0]), (b'*', i0, ns[1])]
        if r.random() < 0.7:
            predef.append((b'*', i0 + 1, ns[2]))
        if r.random() < 0.5:
            predef.append((r.choice([c for c in CLIENTS if c not in (cid, b'*')] or [b'c9']), r.choice([i0, i0 + 2]), ns[3]))
        r.shuffle(predef)
    idrange = None
    if profile == 'ids' or r.random() < 0.12:
        lo = r.choice([1, 1, 2, 65533])
        idrange = (lo, min(65534, lo + r.choice([0, 1, 2, 4])))
    hdrkv = "auth=%d" % authon
    if creds:
        hdrkv += " user=%s pass=%s" % (H(b'gwu'), r.choice([H(b'gwp'), '-']))
    hdrkv += " rd=%d rc=%d" % (rd, rc)
    if predef:
        hdrkv += " predef=" + ",".join("%s:%d:%s" % (H(c), i, H(n)) for c, i, n in predef)
    if idrange:
        hdrkv += " idrange=%d-%d" % idrange

    visible = {}
    for c, i, n in predef:
        if c == b'*' and i not in visible:
            visible[i] = n
    for c, i, n in predef:
        if c == cid:
            visible[i] = n

    def do_connect(good=True):
        will = r.random() < 0.35
        k = ka if r.random() < 0.9 else 0
        g.sn(connect(cid, k, will, r.random() < 0.8))
        steps = []
        if authon:
            steps.append('auth')
        if will:
            steps += ['wt', 'wm']
        if not good:
            # omissions / reorderings / repetitions
            op = r.choice(['drop', 'swap', 'dup', 'extra-auth', 'silent'])
            if op == 'drop' and steps:
                steps.pop(r.randrange(len(steps)))
            elif op == 'swap' and len(steps) > 1:
                i = r.randrange(len(steps) - 1)
                steps[i], steps[i + 1] = steps[i + 1], steps[i]
            elif op == 'dup' and steps:
                steps.insert(r.randrange(len(steps)), r.choice(steps))
            elif op == 'extra-auth':
                steps.insert(r.randrange(len(steps) + 1), 'auth')
            elif op == 'silent':
                steps = steps[:r.randrange(len(steps) + 1)]
                for s in steps:
                    emit_step(s)
                g.raw("end", r.choice([55, 60]))
                return False
            if not will and r.random() < 0.5:
                steps.insert(r.randrange(len(steps) + 1), r.choice(['wt', 'wm']))
        for s in steps:
            emit_step(s)
        code = 0 if r.random() < 0.85 else r.choice([1, 2, 3, 4, 5, 255])
        if r.random() < 0.93:
            g.mq("connack %d" % code)
            g.connected = code == 0 and k != 0
        return True

    def emit_step(s):
        if s == 'auth':
            v = r.random()
            if v < 0.75:
                g.sn(auth(r.choice([b'u', b'', b'user']), r.choice([b'p', b'', b'pw\x01'])))
            elif v < 0.85:
                g.sn(auth(method=r.choice([b'PLAIN2', b'', b'plain', b'GSSAPI'])))
            else:
                g.sn(auth(raw=r.choice([b'', b'\0u', b'\0u\0p\0x', b'u\0p', b'\0\0\0\0'])))
        elif s == 'wt':
            g.sn(willtopic(r.choice([b'w/t', b'w', b'', b'w/+']), r.choice([0, 1, 2, 3]), r.random() < 0.3))
        elif s == 'wm':
            g.sn(willmsg(r.choice([b'bye', b'', b'x' * 30])))

    def payload():
        n = r.choice([0, 1, 2, 5, 5, 40, 250, 251, 252, 253, 254, 300])
        return bytes(r.choice(b'abc\x00\xff') for _ in range(n))

    def client_publish():
        qos = r.choice([0, 0, 1, 1, 2, 3])
        v = r.random()
        if v < 0.45 and g.reg:
            name = r.choice(list(g.reg))
            tit, tid = 0, g.reg[name]
        elif v < 0.6:
            tit, tid = 2, r.choice([0x6162, 0x7a7a, 0x2b61, 0x0000, 0xc3a9, 0x80ff, 0xffff, 0x6100])
        elif v < 0.75:
            tit, tid = 1, r.choice([1, 2, 3, 4, 300, 9])
        elif v < 0.8:
            tit, tid = 3, r.choice([1, 5])
        else:
            tit, tid = 0, r.choice([0, 1, 2, 3, 9, 65535])
        mid = g.nmid() if qos in (1, 2) or r.random() < 0.2 else 0
        if r.random() < 0.1:
            mid = r.choice([0, 1, g.bmid])
        pl = payload()
        g.sn(publish(tit, tid, mid, pl, qos, r.random() < 0.15, r.random() < 0.2))
        if qos == 1 and rd >= 200 and r.random() < (0.4 if profile == 'collide' else 0.12):
            # the client retransmits its PUBLISH (DUP, same message ID); the broker's PUBACK arrives
            # after the first exchange has timed out but while the retransmission's is still alive
            g.sn(publish(tit, tid, mid, pl, qos, True, False), gap=max(1, rd * 6 // 1000))
            g.q += rd // 100 - max(1, rd * 6 // 1000)
            g.mq("puback %d" % mid, gap=0)
            return
        if qos == 1 and r.random() < 0.8:
            g.mq("puback %d" % ((mid if r.random() < 0.9 else mid + 1) & 0xFFFF))
        if qos == 2 and r.random() < 0.8:
            g.mq("pubrec %d" % mid)
            if r.random() < 0.9:
                g.sn(pubrel(mid))
                if r.random() < 0.9:
                    g.mq("pubcomp %d" % mid)

    # every name of the predefined configuration, including entries hidden from this client
    allpre = [n for _, _, n in predef if n]

    def client_register():
        name = r.choice(allpre) if (allpre and r.random() < 0.15) else r.choice(NAMES)
        mid = g.nmid()
        g.maybe.add(name)
        g.sn(register(r.choice([0, 0, 5]), mid, name))
        if b'+' not in name and b'#' not in name and name not in g.reg:
            g.reg[name] = guess_alias()

    def guess_alias():
        # mirrors the gateway's allocation only roughly; wrong guesses simply exercise the
        # "unknown topic id" paths
        lo = idrange[0] if idrange else 1
        a = max(g.next_alias, lo)
        while a in visible:
            a += 1
        g.next_alias = a + 1
        return a

    def client_subscribe():
        qos = r.choice([0, 1, 2, 2, 3])
        v = r.random()
        mid = g.nmid()
        if v < 0.55:
            name = r.choice(allpre) if (allpre and r.random() < 0.12) else r.choice(NAMES)
            if name in g.maybe and b'+' not in name and b'#' not in name:
                name = r.choice([b'a/+', b'#', b'a/#'])
            g.maybe.add(name)
            g.sn(subscribe(mid, name, 0, 0, qos, r.random() < 0.1))
            if b'+' not in name and b'#' not in name and qos <= 2:
                g.reg[name + b''] = guess_alias() if name not in g.reg else g.reg[name]
        elif v < 0.75:
            g.sn(subscribe(mid, None, 1, r.choice([1, 2, 3, 4, 300, 9]), qos))
        else:
            g.sn(subscribe(mid, None, 2, r.choice([0x6162, 0x2b2b, 0x2300]), qos))
        if r.random() < 0.85:
            code = r.choice([0, 1, 2, qos if qos < 3 else 0, 0x80])
            cs = str(code) if r.random() < 0.95 else r.choice(["", "0,1"])
            g.mq("suback mid=%d hq=%d codes=%s" % ((mid if r.random() < 0.93 else mid + 1) & 0xFFFF, r.choice([0, 0, 0, 1]), cs or '-'))

    def client_unsubscribe():
        mid = g.nmid()
        v = r.random()
        if v < 0.5:
            g.sn(unsubscribe(mid, r.choice(NAMES)))
        elif v < 0.75:
            g.sn(unsubscribe(mid, None, 1, r.choice([1, 2, 3, 9])))
        else:
            g.sn(unsubscribe(mid, None, 2, 0x6162))
        if r.random() < 0.85:
            g.mq("unsuback %d" % mid)

    def broker_publish():
        qos = r.choice([0, 0, 1, 1, 2])
        v = r.random()
        if profile == 'predef' and allpre and v < 0.7:
            name = r.choice(allpre)
        elif v < 0.3 and g.reg:
            name = r.choice(list(g.reg))
        elif v < 0.45:
            name = r.choice([b'ab', b'zz', b'+a', b'\xc3\xa9', b'\xff\x80'])
        elif v < 0.6 and allpre:
            # also names whose "*" entry is shadowed by a client-specific one
            name = r.choice(allpre)
        else:
            name = r.choice([b'new/1', b'new/2', b'new/3', b'n', b'a/b/c'])
        mid = g.nbmid() if qos else 0
        if r.random() < 0.1:
            mid = r.choice([1, g.mid, 0]) if qos else 0
        g.maybe.add(name)
        big = r.random() < 0.04
        pl = ("plen=%d" % r.choice([7168, 7169, 8183, 8184, 9000, 66000])) if big else "payload=" + H(payload())
        g.mq("publish dup=%d qos=%d retain=%d mid=%d topic=%s %s" % (r.random() < 0.1, qos, r.random() < 0.2, mid, H(name), pl))
        if big:
            return
        known = (len(name) == 2) or (name in g.reg) or (name in visible.values())
        msgid = mid
        if not known:
            tid = guess_alias()
            if qos == 0:
                msgid = 65535
            w = r.random()
            if w < 0.75:
                g.sn(regack(tid, msgid, 0))
                g.reg[name] = tid
                if r.random() < 0.15:
                    # a late duplicate of the REGACK (e.g. for a duplicated REGISTER), even a refusing one,
                    # must not disturb the exchange that has moved on
                    g.sn(regack(tid, msgid, r.choice([0, 3])))
            elif w < 0.85:
                g.sn(regack(tid, msgid, r.choice([1, 2, 3])))
                return
            elif w < 0.92:
                g.sn(regack(tid, msgid + 1, 0))
            else:
                if r.random() < 0.5:
                    g.raw("end", (rc + 2) * rd // 100 + 2)  # let the retries run out
                    return 'ended'
                return
        tidk = g.reg.get(name, 0)
        if qos == 1 and r.random() < 0.85:
            g.sn(puback(tidk, mid, 0 if r.random() < 0.9 else 2))
        if qos == 2 and r.random() < 0.85:
            g.sn(pubrec(mid))
            if r.random() < 0.9:
                g.mq("pubrel %d" % mid)
                if r.random() < 0.2:
                    g.sn(pubrec(mid))          # a duplicated PUBREC after the PUBREL
                if r.random() < 0.9:
                    g.sn(pubcomp(mid))

    def sleep_cycle():
        # (durations that are multiples of the keep-alive included: the pinger's last tick would coincide with
        # the end of the sleep cycle - it must not be sent)
        d = r.choice([1, 2, 3, 7, 61, 90])
        g.sn(disconnect(d))
        g.asleep = True
        for _ in range(r.randint(0, 3)):
            broker_publish() if r.random() < 0.8 else g.mq("pingresp")
        w = r.random()
        if w < 0.6:
            g.sn(pingreq(cid), r.choice([0, 3, 10, d * 10 + 1]))
            for _ in range(r.randint(0, 2)):
                broker_publish()
            if r.random() < 0.5:
                g.sn(pingreq(cid), r.choice([1, 5]))
        elif w < 0.8:
            g.sn(connect(cid, ka, False, True), r.choice([0, 5]))
            g.asleep = False
        elif w < 0.9:
            g.sn(disconnect(r.choice([0, d])), 2)

    def collide_block():
        """exchanges started by the two sides with the SAME message ID, overlapping in time"""
        m = r.choice([1, 1, 2, 7, 65535])
        bname = r.choice([b'ab', b'zz'])
        cq = r.choice([1, 1, 2])
        bq = r.choice([1, 2])
        bpub = "publish dup=0 qos=%d retain=0 mid=%d topic=%s payload=%s" % (bq, m, H(bname), H(b'B'))
        cpub = publish(2, 0x6162, m, b'C', cq)
        if rd >= 200 and r.random() < 0.2:
            # a superseded exchange: the client retransmits its QoS-1 PUBLISH (DUP, same ID); the first
            # exchange times out; the PUBACK arrives while the retransmission's exchange is alive
            g1 = max(1, rd * 6 // 1000)
            g.sn(publish(2, 0x6162, m, b'C', 1))
            g.sn(publish(2, 0x6162, m, b'C', 1, True), gap=g1)
            g.q += rd // 100 - g1
            g.mq("puback %d" % m, gap=0)
            return
        steps = []
        v = r.random()
        if v < 0.45:
            # broker exchange first, client exchange with the same ID inside it
            steps = [('mq', bpub), ('sn', cpub)]
        elif v < 0.8:
            steps = [('sn', cpub), ('mq', bpub)]
        else:
            steps = [('sn', subscribe(m, r.choice([b'a/+', b'c/d']), 0, 0, 1)), ('mq', bpub)]
            cq = 0
        acks = []
        if cq == 1:
            acks.append(('mq', "puback %d" % m))
        elif cq == 2:
            acks += [('mq', "pubrec %d" % m), ('sn', pubrel(m)), ('mq', "pubcomp %d" % m)]
        else:
            acks.append(('mq', "suback mid=%d hq=0 codes=1" % m))
        if bq == 1:
            backs = [('sn', puback(0x6162 if len(bname) == 2 else 0, m, 0))]
        else:
            backs = [('sn', pubrec(m)), ('mq', "pubrel %d" % m), ('sn', pubcomp(m))]
        # interleave the two acknowledgement chains, keeping each chain's order
        while acks or backs:
            if acks and (not backs or r.random() < 0.5):
                steps.append(acks.pop(0))
            else:
                steps.append(backs.pop(0))
        for kind, x in steps:
            if r.random() < 0.08:
                g.q += r.choice([rd // 100 + 1, 1])      # sometimes let a timer fire in between
            g.sn(x) if kind == 'sn' else g.mq(x)

    def stray():
        v = r.random()
        if v < 0.2:
            g.sn(regack(r.choice([1, 2]), r.choice([1, g.bmid, 65535]), 0))
        elif v < 0.35:
            g.sn(puback(1, r.choice([1, g.bmid]), 0))
        elif v < 0.5:
            g.sn(r.choice([pubrec, pubcomp, pubrel])(r.choice([1, g.bmid, g.mid])))
        elif v < 0.6:
            g.mq(r.choice(["puback 1", "pubrec 1", "pubcomp 2", "pubrel 3", "unsuback 4", "pingresp", "suback mid=1 hq=0 codes=0", "connack 0"]))
        elif v < 0.7:
            g.sn(other_type(r))
        elif v < 0.78:
            g.sn(bytes(r.choice([[], [1], [1, 5], [2, 0x19], [3, 4, 1], [5, 0x0c, 0, 0, 1]])))
        elif v < 0.84:
            g.mq(r.choice(["pingreq", "disconnect", "subscribe mid=1"]))
        elif v < 0.9:
            g.raw("mqraw " + r.choice(["f000", "0000"]))
        else:
            g.sn(pingreq(r.choice([b'', cid])))

    # ----- the script
    pre = r.random()
    if pre < 0.12:
        # packets before any CONNECT
        for _ in range(r.randint(1, 3)):
            w = r.random()
            if w < 0.3:
                g.sn(publish(r.choice([1, 2, 2, 0, 3]), r.choice([1, 0x6162, 300]), 0, b'q', r.choice([3, 3, 0, 1])))
            elif w < 0.45:
                g.sn(disconnect(r.choice([0, 5])))
            elif w < 0.6:
                g.sn(pingreq(cid))
            elif w < 0.8:
                emit_step(r.choice(['auth', 'wt', 'wm']))
            else:
                stray()
    ok = do_connect(good=r.random() < (0.5 if profile == 'connect' else 0.8))
    if ok:
        if r.random() < 0.1:
            do_connect(good=r.random() < 0.7)     # repeated CONNECT exchange
        n = r.randint(0, 10 if profile != 'long' else 25)
        for _ in range(n):
            if len(g.ev) > 80:
                break
            w = r.random()
            res = None
            if profile == 'collide' and w < 0.5:
                collide_block()
            elif w < 0.2:
                client_publish()
            elif w < 0.32:
                client_register()
            elif w < 0.44:
                client_subscribe()
            elif w < 0.5:
                client_unsubscribe()
            elif w < 0.72:
                res = broker_publish()
            elif w < 0.78:
                g.sn(pingreq())
                if r.random() < 0.8:
                    g.mq("pingresp")
            elif w < 0.86:
                sleep_cycle()
            elif w < 0.96:
                stray()
            else:
                g.raw("tick-placeholder")
                g.ev.pop()
                g.q += r.choice([rd // 100, rd // 100 + 1, (rc + 1) * rd // 100 + 1, 51])
            if res == 'ended':
                break
        fin = r.random()
        if g.ev and not g.ev[-1].endswith("end") and 'end' not in g.ev[-1].split()[1:2]:
            if fin < 0.3:
                g.sn(disconnect(0))
            elif fin < 0.4:
                g.raw("shutdown")
            elif fin < 0.5:
                g.raw("mqeof")
            elif fin < 0.55:
                g.raw("mqraw f000")
    if not (g.ev and g.ev[-1].split()[1] == 'end'):
        g.raw("end", r.choice([3, 3, 4, 12, (rc + 2) * rd // 100 + 2, 53]))
    return "case g%d-%s %s\n" % (idx, profile, hdrkv) + "\n".join(g.ev) + "\n"


def gen_keepalive_case(r, idx):
    """A client that meets its own obligations (C12) and then vanishes (C34): connected with a small
    keep-alive, it sends something within every keep-alive period while active - often traffic the
    gateway answers without talking to the broker - sleeps (shorter and longer than the keep-alive,
    sometimes repeating the request) and wakes up in time; at some point it falls silent for good."""
    g = Gen(r, 'keepalive')
    ka = r.choice([2, 3, 5])
    rd = r.choice([200, 1000])
    rc = r.choice([1, 2])
    cid = b'c1'
    hdrkv = "auth=0 rd=%d rc=%d" % (rd, rc)
    g.sn(connect(cid, ka, False, True))
    g.mq("connack 0")
    mid = 10
    reg = {}
    kaq = ka * 10                     # keep-alive in units of 100 ms

    def step_gap():
        # stay inside the keep-alive period
        return r.choice([1, 2, kaq // 2, kaq - 2, kaq - 1])

    asleep_until = None
    for _ in range(r.randint(3, 10)):
        w = r.random()
        mid += 1
        if w < 0.2:
            g.sn(pingreq(), gap=step_gap())
            if r.random() < 0.9:
                g.mq("pingresp")
        elif w < 0.4:
            # REGISTER: the second one for a name is answered from the gateway's registry
            name = r.choice([b'a/b', b't/1'])
            g.sn(register(0, mid, name), gap=step_gap())
            reg[name] = reg.get(name, len(reg) + 1)
        elif w < 0.5:
            g.sn(publish(2, 0x6162, 0, b'x', 0), gap=step_gap())
        elif w < 0.6:
            g.sn(puback(1, r.choice([1, 9]), 0), gap=step_gap())        # an acknowledgement nobody waits for
        elif w < 0.7:
            g.sn(subscribe(mid, b'a/+', 0, 0, 1), gap=step_gap())
            g.mq("suback mid=%d hq=0 codes=1" % mid)
        elif w < 0.8:
            g.mq("publish dup=0 qos=1 retain=0 mid=%d topic=%s payload=%s" % (mid, H(b'ab'), H(b'B')), gap=step_gap())
            g.sn(puback(0x6162, mid, 0))
        else:
            # a sleep cycle: shorter or longer than the keep-alive, woken up in time
            d = r.choice([1, ka - 1, ka, ka + 1, 2 * ka, 2 * ka + 1, 4 * ka + 1])
            d = max(1, d)
            g.sn(disconnect(d), gap=step_gap())
            if r.random() < 0.25:
                g.sn(disconnect(d), gap=r.choice([1, 3]))                   # the request repeated
            if r.random() < 0.2:
                # the sleep renewed for a longer time before it is over: the new duration counts from now
                d2 = d + r.choice([ka + 1, 2 * ka + 1])
                g.sn(disconnect(d2), gap=max(1, d * 10 // 2))
                d = d2
            if r.random() < 0.3:
                g.mq("publish dup=0 qos=0 retain=0 mid=0 topic=%s payload=%s" % (H(b'ab'), H(b'S')), gap=1)
            if r.random() < 0.15:
                # the client never wakes up again
                g.raw("end", d * 10 + 3 * kaq + 20)
                return "case g%d-keepalive %s\n" % (idx, hdrkv) + "\n".join(g.ev) + "\n"
            g.sn(pingreq(cid), gap=r.choice([d * 10 - 1, d * 10 // 2 + 1, max(1, d * 10 - 3)]))
            v = r.random()
            if v < 0.5:
                g.sn(connect(cid, ka, False, True), gap=r.choice([1, 2]))
            elif v < 0.8:
                # asleep again at once (the gateway treats the client as asleep after PINGRESP); next cycle
                g.sn(disconnect(max(1, ka - 1)), gap=1)
                g.sn(pingreq(cid), gap=max(1, (ka - 1) * 10 - 2))
                g.sn(connect(cid, ka, False, True), gap=1)
            elif v < 0.9:
                # a short sleep announced after the wake-up, then the client vanishes: the pinger of the earlier,
                # longer cycle must not go on
                g.sn(disconnect(1), gap=1)
                g.raw("end", 10 + 3 * kaq + 20 + d * 10)
                return "case g%d-keepalive %s\n" % (idx, hdrkv) + "\n".join(g.ev) + "\n"
            else:
                g.raw("end", 3 * kaq + 20)
                return "case g%d-keepalive %s\n" % (idx, hdrkv) + "\n".join(g.ev) + "\n"
    # the client vanishes: the case goes on long enough for a keep-alive-enforcing broker to notice
    if r.random() < 0.4:
        g.raw("mqeof", 3 * kaq // 2 + 3)
        g.raw("end", 5)
    else:
        g.raw("end", 3 * kaq + 20)
    return "case g%d-keepalive %s\n" % (idx, hdrkv) + "\n".join(g.ev) + "\n"


def main():
    seed, n, profile = int(sys.argv[1]), int(sys.argv[2]), sys.argv[3]
    r = random.Random(seed * 1000003 + sum(profile.encode()) % 1000)  # (str hash is salted per process)
    profiles = [profile] if profile != 'mix' else ['mix', 'mix', 'connect', 'ids', 'long', 'collide']
    out = []
    for i in range(n):
        pr = r.choice(profiles)
        out.append(gen_keepalive_case(r, i) if pr == 'keepalive' else gen_case(r, i, pr))
    sys.stdout.write("".join(out))


if __name__ == '__main__':
    main()
