#!/usr/bin/env python3
"""Case generator for the cli suite: gen_cli.py <seed> <n> <profile>
case <id> cid=<hex> yaml=<hexclient>:<id>:<hexname>,... nulls=<hexclient>,... opts=<hex>,... names=<hex>,... ids=<n>,...
sec <id> creds=<0|1> dtls=<unset|false> insecure=<0|1>
"""
import random, sys

H = lambda b: b.hex() if b else '-'
CLIENTS = [b'c1', b'c2', b'*', b'client 3']
NAMES = [b'a/b', b'dev/x', b'dev/y', b't', b'with space', b'x/#', b'zz', b'long/' + b'n' * 30]
IDS = [1, 2, 3, 256, 65535]


def gen_case(r, idx):
    cid = r.choice([b'c1', b'c1', b'c2', b'c9'])
    yaml, used = [], set()
    if r.random() < 0.8:
        for _ in range(r.randint(1, 5)):
            c, i = r.choice(CLIENTS), r.choice(IDS)
            if (c, i) in used:
                continue
            used.add((c, i))
            yaml.append((c, i, r.choice(NAMES)))
    nulls = []
    if r.random() < 0.08:
        c = r.choice([b'c1', b'cnull'])
        if not any(y[0] == c for y in yaml):
            nulls.append(c)
    opts = []
    for _ in range(r.choice([0, 0, 1, 2, 3, 4])):
        v = r.random()
        c, n, i = r.choice(CLIENTS), r.choice(NAMES), r.choice(IDS)
        if v < 0.55:
            o = c + b';' + n + b';' + str(i).encode()
        elif v < 0.85:
            o = n + b';' + str(i).encode()
        elif v < 0.9:
            o = r.choice([b'x', b'c;n;70000', b'c;n;abc', b'a;b;c;4', b'c;n;-1', b'c;n;', b';5', b'c;n;007'])
        else:
            # the same (client, id) again with another name: later options win
            o = c + b';' + r.choice(NAMES) + b';' + str(i).encode()
        opts.append(o)
    names = r.sample(NAMES, r.randint(1, 4)) + ([b'absent/name'] if r.random() < 0.3 else [])
    ids = r.sample(IDS, r.randint(1, 3))
    return "case c%d cid=%s yaml=%s nulls=%s opts=%s names=%s ids=%s\n" % (
        idx, H(cid), ",".join("%s:%d:%s" % (H(c), i, H(n)) for c, i, n in yaml) or '-',
        ",".join(H(c) for c in nulls) or '-', ",".join(H(o) for o in opts) or '-',
        ",".join(H(n) for n in names), ",".join(str(i) for i in ids))


def main():
    seed, n, profile = int(sys.argv[1]), int(sys.argv[2]), sys.argv[3]
    r = random.Random(seed * 7919 + 11)
    out = []
    if profile == 'sec':
        k = 0
        for creds in (0, 1):
            for dtls in ('unset', 'false'):
                for insecure in (0, 1):
                    out.append("sec s%d creds=%d dtls=%s insecure=%d\n" % (k, creds, dtls, insecure))
                    k += 1
    elif profile == 'iso':
        k = 0
        for order in ('afirst', 'bfirst'):
            for bdies in ('error', 'disconnect'):
                # the second peer's password: shorter than, as long as, longer than the gateway's default one
                pb = r.choice([b'pB', b'pBpBpBpBpBp', b'a-much-longer-password'])
                out.append("iso i%d order=%s pb=%s bdies=%s\n" % (k, order, pb.hex(), bdies))
                k += 1
                if k >= n:
                    break
            if k >= n:
                break
    else:
        for i in range(n):
            out.append(gen_case(r, i))
    sys.stdout.write("".join(out))


if __name__ == '__main__':
    main()
